"""Replay of a concretised SymWorld script against the unmodified code on **real sqlite3** with the
real JSON framing, and comparison of the concrete observations with the symbolic prediction.

Used (a) to confirm every counterexample before a VIOLATION is printed, (b) to validate the
encoding on witnesses of passing paths (a mismatch is a harness error, never a pass)."""
import os, sys, json, tempfile, shutil, sqlite3
from fractions import Fraction
import z3
from .engine import conc, model_value, SStr, SNum, SBool, Decoder
from . import world as W_

import wormhole_mailbox_server.server as S
import wormhole_mailbox_server.server_websocket as WS
import wormhole_mailbox_server.server_tap as TAP
import wormhole_mailbox_server.database as DBM


def _num(x):
    if isinstance(x, Fraction):
        return float(x)
    return x


def _rows_of(snap, dec, only=None):
    out = {}
    for t, rows in snap.tables.items():
        if only and t not in only:
            continue
        kinds = {c["name"]: c["sort"] for c in snap.catalog[t]}
        lst = []
        for r in rows:
            if not dec.num(r.p):
                continue
            d = {}
            for c in r.v:
                if dec.num(r.n[c]):
                    d[c] = None
                elif kinds[c] == "s":
                    d[c] = dec.string(r.v[c])
                else:
                    d[c] = _num(dec.num(r.v[c]))
            lst.append(d)
        out[t] = lst
    return out


def concretise_script(world, model):
    """SymWorld (after a path) + model -> JSON-able replay description incl. predicted observations"""
    if not isinstance(model, Decoder):
        from .engine import two_pass
        return two_pass(model, lambda dec: concretise_script(world, dec))
    if isinstance(world, (list, tuple)):
        return dict(multi=[concretise_script(w, model) for w in world])
    acts = []
    for a in world.script:
        k = a[0]
        if k == "config":
            cfg = dict(a[1])
            cfg["blur"] = _num(conc(model, cfg["blur"])) if cfg["blur"] is not None else None
            cfg["allow_list"] = conc(model, cfg["allow_list"])
            cfg["welcome"] = conc(model, cfg["welcome"])
            acts.append(["config", cfg])
        elif k == "env":
            acts.append(["env", a[1], _num(conc(model, a[2]))])
        elif k == "conn":
            acts.append(["conn", a[1], a[2], a[3] if len(a) > 3 else "setup"])
        elif k == "deliver":
            acts.append(["deliver", a[1], conc(model, a[2]), a[3]])
        elif k == "disconnect":
            acts.append(["disconnect", a[1], a[2]])
        elif k == "restart":
            acts.append(["restart", a[1]])
        elif k == "load":
            ch = _rows_of(a[1], model, W_.CHANNEL_TABLES)
            us = _rows_of(a[2], model) if a[2] is not None else None
            nid = model.num(a[1].next_id["nameplates"])
            acts.append(["load", ch, us, nid])
        elif k == "expire":
            acts.append(["expire", a[1]])
        elif k == "prune":
            acts.append(["prune", _num(conc(model, a[1])), _num(conc(model, a[2]))])
        elif k == "fault":
            acts.append(["fault", a[1], a[2]])
        else:
            acts.append([k] + [conc(model, x) for x in a[1:]])
    obs = []
    for o in world.obs:
        if o[0] == "frame":
            obs.append(["frame", o[1], _jsonable(conc(model, o[2])), bool(o[3])])
        elif o[0] == "exc":
            obs.append(["exc", o[1], o[2]])
        else:
            obs.append([o[0]] + [_jsonable(conc(model, x)) for x in o[1:]])
    final = _rows_of(world.db.snapshot(), model, W_.CHANNEL_TABLES)
    final_usage = _rows_of(world.usage.snapshot(), model) if world.usage is not None else None
    return dict(script=acts, predicted=dict(obs=obs, final=final, final_usage=final_usage),
                want_mem=any(o[0] == "mem" for o in world.obs))


def _jsonable(x):
    if isinstance(x, Fraction):
        return float(x)
    if isinstance(x, dict):
        return {k: _jsonable(v) for k, v in x.items()}
    if isinstance(x, (list, tuple)):
        return [_jsonable(v) for v in x]
    return x


# ---------------------------------------------------------------------------------------------
class ScriptedEnv:
    def __init__(self, acts):
        self.q = {}
        for a in acts:
            if a[0] == "env":
                self.q.setdefault(a[1], []).append(a[2])
        self.pos = {k: 0 for k in self.q}
        self.problems = []

    def pop(self, kind, default=None):
        lst = self.q.get(kind, [])
        i = self.pos.get(kind, 0)
        if i >= len(lst):
            self.problems.append("environment: more %s draws than predicted" % kind)
            return default
        self.pos[kind] = i + 1
        return lst[i]

    # time module surface
    def time(self):
        v = self.pop("clock", 0.0)
        return float(v)

    # random module surface
    def choice(self, seq):
        v = self.pop("choice")
        if v not in list(seq):
            self.problems.append("environment: predicted random.choice %r not in %r" % (v, sorted(seq)[:5]))
            return list(seq)[0]
        return v

    def randrange(self, a, b=None):
        return self.pop("randrange", a)

    def mailbox_id(self):
        return self.pop("mailbox_id", "fallbackmailboxid")

    def leftovers(self):
        out = []
        for k, lst in self.q.items():
            if self.pos[k] != len(lst):
                out.append("environment: %d of %d predicted %s draws consumed" % (self.pos[k], len(lst), k))
        return out


class ConnProxy:
    """thin delegating wrapper around a real sqlite3 connection (fault injection, counting)"""

    def __init__(self, real):
        self._real = real
        self.n = 0
        self.fault_at = None

    def execute(self, *a, **k):
        i = self.n
        self.n += 1
        if self.fault_at is not None and i == self.fault_at:
            raise sqlite3.OperationalError("database is locked")
        return self._real.execute(*a, **k)

    def cursor(self):
        outer = self

        class _Cur:
            def __init__(self_):
                self_._c = outer._real.cursor()

            def execute(self_, *a, **k):
                i = outer.n
                outer.n += 1
                if outer.fault_at is not None and i == outer.fault_at:
                    raise sqlite3.OperationalError("database is locked")
                self_._c.execute(*a, **k)
                return self_

            def __getattr__(self_, name):
                return getattr(self_._c, name)

            def __iter__(self_):
                return iter(self_._c)
        return _Cur()

    def __enter__(self):
        self._real.__enter__()
        return self

    def __exit__(self, *a):
        return self._real.__exit__(*a)

    def __getattr__(self, name):
        return getattr(self._real, name)


class RealFactory:
    def __init__(self, server):
        self.server = server
        self.reactor = None


def run_and_compare(cs):
    """(observed, diffs) for a single or multi-world concretised script"""
    if cs.get("kind") == "kernel":
        from props.kernels import run_kernel_script
        o = run_kernel_script(cs)
        diffs = []
        for k, v in cs["predicted"].items():
            rv = o.get(k)
            same = (rv == v) or (isinstance(rv, (int, float)) and isinstance(v, (int, float)) and abs(rv - v) < 1e-6)
            if not same:
                diffs.append("%s: predicted %r, real %r" % (k, v, rv))
        return dict(obs=[[k, v] for k, v in sorted(o.items())]), diffs
    if cs.get("kind") == "db":
        from . import realfs
        o = realfs.run_db_script(cs)
        return dict(obs=[[k, v] for k, v in sorted(o.items()) if k != "events_first"], db=o), realfs.compare_db(cs["predicted"], o)
    if "multi" in cs:
        obs, diffs = [], []
        for i, one in enumerate(cs["multi"]):
            if one.get("kind") == "db":
                o, dd = run_and_compare(one)
            else:
                o = run_script(one)
                dd = compare(one["predicted"], o)
            obs.append(o)
            diffs += ["run %d: %s" % (i + 1, d) for d in dd]
        return dict(obs=[o["obs"] for o in obs], multi=obs), diffs
    o = run_script(cs)
    return o, compare(cs["predicted"], o)


def run_script(cs, keep_dir=None):
    """execute the concretised script on real objects; returns observed dict like `predicted`"""
    acts = cs["script"]
    W_.SymWorld.uninstall()
    env = ScriptedEnv(acts)
    nl = W_.NullLog()
    saved = dict(S_log=S.log, WS_log=WS.log, TAP_log=TAP.log, DBM_log=DBM.log, gen=S.generate_mailbox_id,
                 random=S.random, WS_time=WS.time, TAP_time=TAP.time)
    S.log = WS.log = TAP.log = DBM.log = nl
    S.generate_mailbox_id = env.mailbox_id
    S.random = env
    WS.time = env
    TAP.time = env
    d = tempfile.mkdtemp(prefix="sxreplay-", dir=keep_dir or os.environ.get("SX_TMP", None))
    obs = []
    st = dict(server=None, db=None, usage=None, conns={}, cfg=None)
    chpath, uspath = os.path.join(d, "channel.sqlite"), os.path.join(d, "usage.sqlite")

    def make_server():
        c = st["cfg"]
        w = c["welcome"]
        opts = TAP.Options()
        opts["blur-usage"] = c["blur"]
        opts["allow-list"] = c["allow_list"]
        opts["advertise-version"] = w.get("current_cli_version")
        opts["signal-error"] = w.get("error")
        opts["motd"] = w.get("motd")
        opts["channel-db"] = chpath
        opts["usage-db"] = uspath if c["usage"] else None
        opts["port"] = "tcp:0"
        saved = (TAP.increase_rlimits, TAP.create_or_upgrade_channel_db, TAP.create_or_upgrade_usage_db)
        TAP.increase_rlimits = lambda: None
        TAP.create_or_upgrade_channel_db = lambda path: st["db"]
        TAP.create_or_upgrade_usage_db = lambda path: (st["usage"] if path is not None else None)
        try:
            parent = TAP.makeService(opts)
        finally:
            TAP.increase_rlimits, TAP.create_or_upgrade_channel_db, TAP.create_or_upgrade_usage_db = saved
        from twisted.application.internet import TimerService
        st["server"] = [x for x in parent if isinstance(x, S.Server)][0]
        st["timer"] = [x for x in parent if isinstance(x, TimerService)][0]

    def dirty():
        return bool(st["db"].in_transaction or (st["usage"] is not None and st["usage"].in_transaction))

    try:
        for a in acts:
            k = a[0]
            if k == "config":
                st["cfg"] = a[1]
                st["db"] = ConnProxy(DBM.create_or_upgrade_channel_db(chpath))
                st["usage"] = ConnProxy(DBM.create_or_upgrade_usage_db(uspath)) if a[1]["usage"] else None
                make_server()
            elif k == "env":
                pass
            elif k == "conn":
                st["phase"] = a[3] if len(a) > 3 else st.get("phase", "setup")
                c = WS.WebSocketServer()
                c.factory = RealFactory(st["server"])
                c.label = a[1]
                c.phase = "setup"

                def send(payload, isBinary=False, c=c):
                    if st.get("phase") == "step":
                        obs.append(["frame", c.label, json.loads(payload.decode("utf-8")), dirty()])
                c.sendMessage = send
                st["conns"][a[1]] = c
                if a[2]:
                    c.onOpen()
            elif k == "deliver":
                st["phase"] = a[3]
                c = st["conns"][a[1]]
                payload = json.dumps(a[2]).encode("utf-8")
                try:
                    c.onMessage(payload, True)
                except Exception as ex:
                    if a[3] == "step":
                        obs.append(["exc", a[1], type(ex).__name__])
                    elif a[3] == "setup":
                        env.problems.append("setup deliver raised %r" % (ex,))
            elif k == "disconnect":
                st["phase"] = a[2]
                c = st["conns"].pop(a[1])
                try:
                    c.onClose(True, None, None)
                except Exception as ex:
                    if a[2] == "step":
                        obs.append(["exc", a[1], type(ex).__name__])
            elif k == "restart":
                st["phase"] = a[1]
                st["conns"] = {}
                st["db"].close()
                if st["usage"] is not None:
                    st["usage"].close()
                try:
                    st["db"] = ConnProxy(DBM.create_or_upgrade_channel_db(chpath))
                    st["usage"] = ConnProxy(DBM.create_or_upgrade_usage_db(uspath)) if st["cfg"]["usage"] else None
                except DBM.DBError as ex:
                    obs.append(["exc", "restart", "DBError"])
                    break
                make_server()
            elif k == "load":
                _load(st["db"], a[1], a[3])
                if st["usage"] is not None:
                    _load_usage(st["usage"], a[2])
                st["phase"] = "step"
            elif k == "expire":
                st["phase"] = a[1]
                W_.NullLog.errors = []
                try:
                    st["timer"].call[0](*st["timer"].call[1], **st["timer"].call[2])
                except Exception as ex:
                    if a[1] == "step":
                        obs.append(["exc", "expire", type(ex).__name__])
                if a[1] == "step":
                    obs.append(["sweep_errors", len(W_.NullLog.errors)])
            elif k == "setattr":
                setattr(st["conns"][a[1]], a[2], a[3])
            elif k == "fault":
                tgt = st["db"] if a[1] == "channel" else st["usage"]
                tgt.fault_at = None if a[2] is None else tgt.n + a[2]
            elif k == "prune":
                try:
                    st["server"].prune_all_apps(a[1], a[2])
                except Exception as ex:
                    obs.append(["exc", "prune", type(ex).__name__])
            else:
                env.problems.append("replay: unknown action %r" % (k,))
        if cs.get("want_mem"):
            obs.append(["mem", inv_mem_concrete(st["server"], list(st["conns"].values()), st["db"])])
        final = _dump(st["db"], W_.CHANNEL_TABLES)
        final_usage = _dump(st["usage"], None) if st["usage"] is not None else None
    finally:
        S.log, WS.log, TAP.log, DBM.log = saved["S_log"], saved["WS_log"], saved["TAP_log"], saved["DBM_log"]
        S.generate_mailbox_id, S.random = saved["gen"], saved["random"]
        WS.time, TAP.time = saved["WS_time"], saved["TAP_time"]
        try:
            if st["db"] is not None:
                st["db"].close()
            if st["usage"] is not None:
                st["usage"].close()
        except Exception:
            pass
        shutil.rmtree(d, ignore_errors=True)
    return dict(obs=obs, final=final, final_usage=final_usage, problems=env.problems + env.leftovers())


def inv_mem_concrete(srv, live, db):
    """INV_MEM (M1..M5 of DESIGN.md §4.2) evaluated on the real objects"""
    res = dict(M1=True, M2=True, M3=True, M4=True, M5=True)
    for k, ns in srv._apps.items():
        if k != ns._app_id:
            res["M1"] = False
    for c in live:
        if c._app is not None and srv._apps.get(c._app._app_id) is not c._app:
            res["M2"] = False
    for k, ns in srv._apps.items():
        for mk, mb in ns._mailboxes.items():
            if mk != mb._mailbox_id or mb._app is not ns:
                res["M3"] = False
            for h in mb._listeners.keys():
                if h not in live or h._mailbox is not mb or not h._listening:
                    res["M5"] = False
    for c in live:
        if c._mailbox is not None:
            mb = c._mailbox
            if not c._listening or c not in mb._listeners:
                res["M4"] = False
                continue
            if c._app is None or c._app._mailboxes.get(mb._mailbox_id) is not mb:
                res["M4"] = False
                continue
            a = db.execute("SELECT * FROM mailboxes WHERE app_id=? AND id=?", (mb._app_id, mb._mailbox_id)).fetchone()
            b = db.execute("SELECT * FROM mailbox_sides WHERE mailbox_id=? AND side=?", (mb._mailbox_id, c._side)).fetchone()
            if not a or not b:
                res["M4"] = False
    return res


def _load(db, rows, next_id):
    for t in ["nameplate_sides", "mailbox_sides", "messages", "nameplates", "mailboxes"]:
        db.execute("DELETE FROM `%s`" % t)
    db.execute("PRAGMA foreign_keys = OFF") if False else None
    for t in ["mailboxes", "nameplates", "mailbox_sides", "nameplate_sides", "messages"]:
        for r in rows.get(t, []):
            cols = list(r.keys())
            db.execute("INSERT INTO `%s` (%s) VALUES (%s)" % (t, ",".join("`%s`" % c for c in cols),
                                                                ",".join("?" for c in cols)),
                       [r[c] for c in cols])
    db.execute("DELETE FROM sqlite_sequence WHERE name='nameplates'")
    db.execute("INSERT INTO sqlite_sequence (name, seq) VALUES ('nameplates', ?)", (int(next_id) - 1,))
    db.commit()


def _load_usage(db, rows):
    for t in ["nameplates", "mailboxes", "client_versions", "current"]:
        db.execute("DELETE FROM `%s`" % t)
    for t, lst in (rows or {}).items():
        if t == "version":
            continue
        for r in lst:
            cols = list(r.keys())
            db.execute("INSERT INTO `%s` (%s) VALUES (%s)" % (t, ",".join("`%s`" % c for c in cols),
                                                                ",".join("?" for c in cols)),
                       [r[c] for c in cols])
    db.commit()


def _dump(db, tables):
    out = {}
    if tables is None:
        tables = [r["name"] for r in db.execute("SELECT name FROM sqlite_master WHERE type='table'").fetchall()
                  if not r["name"].startswith("sqlite_")]
    for t in tables:
        out[t] = [dict(r) for r in db.execute("SELECT * FROM `%s`" % t).fetchall()]
    return out


# ---------------------------------------------------------------------------------------------
def _norm(x):
    if isinstance(x, bool):
        return int(x)
    if isinstance(x, (int, float, Fraction)):
        return round(float(x), 6)
    if isinstance(x, dict):
        return {k: _norm(v) for k, v in sorted(x.items())}
    if isinstance(x, (list, tuple)):
        return [_norm(v) for v in x]
    return x


def _rowkey(r):
    return json.dumps(_norm(r), sort_keys=True)


def compare(predicted, observed, ignore_tables=("version",)):
    """list of human-readable mismatches (empty = the encoding predicted the real run exactly)"""
    diffs = list(observed.get("problems", []))
    po, oo = predicted["obs"], observed["obs"]
    if len(po) != len(oo):
        diffs.append("number of observations: predicted %d, real %d" % (len(po), len(oo)))
    for i, (p, o) in enumerate(zip(po, oo)):
        if _norm(p) != _norm(o):
            diffs.append("observation %d: predicted %s, real %s" % (i, json.dumps(_norm(p))[:300],
                                                                    json.dumps(_norm(o))[:300]))
    for key in ("final", "final_usage"):
        pf, of = predicted.get(key), observed.get(key)
        if pf is None and of is None:
            continue
        if (pf is None) != (of is None):
            diffs.append("%s: one side missing" % key)
            continue
        for t in sorted(set(pf) | set(of)):
            if t in ignore_tables:
                continue
            a = sorted(_rowkey(r) for r in pf.get(t, []))
            b = sorted(_rowkey(r) for r in of.get(t, []))
            if a != b:
                diffs.append("%s.%s: predicted %s, real %s" % (key, t, a[:4], b[:4]))
    return diffs
