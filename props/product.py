"""Two-run product obligations (relational properties): C06 isolation, C11 restart, C14 re-sent
command, C18 configuration independence.  Both runs start from the same symbolic pre-state terms,
receive the same symbolic command and draw the same environment outcomes (SharedEnv)."""
import z3
from sx.engine import E, SBool, SStr, SNum, SOpt, Z, Inconclusive, Unsupported
from sx.run import obligation, PathResult
from sx.world import CHANNEL_TABLES, SymMsg
from .common import *
from .steps import bounds, usage_cfg, step_frames, ftype

OPS = ["list", "allocate", "claim", "release", "open", "add", "close", "sweep", "disconnect", "bind2"]


class Cmd:
    pass


def make_cmd(e, op):
    c = Cmd()
    c.op = op
    sb, ss = e.sym_bool, e.sym_str
    c.f = dict(id=(sb("cmd.has_id"), ss("cmd.id")))
    if op in ("claim", "release"):
        c.f["nameplate"] = (sb("cmd.has_nameplate"), ss("cmd.nameplate"))
    if op in ("open", "close"):
        c.f["mailbox"] = (sb("cmd.has_mailbox"), ss("cmd.mailbox"))
    if op == "close":
        c.f["mood"] = (sb("cmd.has_mood"), ss("cmd.mood"))
    if op == "add":
        c.f["phase"] = (sb("cmd.has_phase"), ss("cmd.phase"))
        c.f["body"] = (sb("cmd.has_body"), ss("cmd.body"))
    if op == "openadd":
        c.f["mailbox"] = (T, ss("cmd.mailbox"))
        c.f2 = dict(phase=(T, ss("cmd.phase")), body=(T, ss("cmd.body")), id=c.f["id"])
    if op == "bind2":
        c.f["appid"] = (T, ss("cmd.appid"))
        c.f["side"] = (T, ss("cmd.side"))
    return c


def apply_cmd(x, cmd, conn=None):
    w = x.w
    conn = conn or x.c
    if cmd.op == "sweep":
        return w.expire()
    if cmd.op == "disconnect":
        return w.disconnect(conn)
    if cmd.op == "openadd":
        ex = w.deliver(conn, w.msg("open", **cmd.f))
        if ex is not None:
            return ex
        return w.deliver(conn, w.msg("add", **cmd.f2))
    t = "bind" if cmd.op == "bind2" else cmd.op
    msg = w.msg(t, **cmd.f)
    x.last_msg = msg
    return w.deliver(conn, msg)


def mailbox_named(cmd, x):
    """term list: mailbox ids the command may touch (for the KF-D6 exclusion)"""
    out = []
    if "mailbox" in cmd.f:
        out.append(cmd.f["mailbox"])
    return out


def kf_d6_for(cmd, x):
    if x.app is None:
        return F
    parts = []
    if "mailbox" in cmd.f:
        pres, v = cmd.f["mailbox"]
        parts.append(And(pres, kf_d6_term(x, v)))
        # ... or a mailbox id the pre-cut history created under another app
        for k in ("g.mid",):
            pass
    mid = getattr(x.c, "_mailbox_id", None) if x.c is not None else None
    if cmd.op == "close" and isinstance(mid, str) and x.c._mailbox is None:
        parts.append(kf_d6_term(x, mid))
    return Or(*parts)


def veq(a, b, ignore=("server_tx",)):
    """term/bool: two frame values are equal"""
    if isinstance(a, SymMsg) or isinstance(b, SymMsg):
        if not (isinstance(a, SymMsg) and isinstance(b, SymMsg)):
            return F
        return And(*[And(a.has(k) == b.has(k), Implies(a.has(k), veq(a.val[k], b.val[k])))
                     for k in set(a.pres) | set(b.pres)])
    if isinstance(a, dict) and isinstance(b, dict):
        ka, kb = set(a) - set(ignore), set(b) - set(ignore)
        if ka != kb:
            return F
        return And(*[veq(a[k], b[k], ignore) for k in ka])
    if isinstance(a, (list, tuple)) and isinstance(b, (list, tuple)):
        if len(a) != len(b):
            return F
        return And(*[veq(p, q, ignore) for p, q in zip(a, b)])
    if isinstance(a, (dict, list, tuple)) or isinstance(b, (dict, list, tuple)):
        return F
    if isinstance(a, SOpt) or isinstance(b, SOpt):
        raise Unsupported("merged optional in a frame")
    return eqv(a, b)


def frames_equal(fa, fb, skip_payload_of=()):
    if [ftype(r) for r in fa] != [ftype(r) for r in fb]:
        return F
    parts = []
    for ra, rb in zip(fa, fb):
        if ftype(ra) in skip_payload_of:
            continue
        parts.append(veq(ra["frame"], rb["frame"]))
    return And(*parts)


def slots_equal(ra, rb):
    return And(ra.p == rb.p, Implies(ra.p, And(*([ra.v[c] == rb.v[c] for c in ra.v] +
                                                 [ra.n[c] == rb.n[c] for c in ra.n]))))


def rows_same(ra, rb):
    return And(*([ra.v[c] == rb.v[c] for c in ra.v] + [ra.n[c] == rb.n[c] for c in ra.n]))


def stores_equal(sa, sb, tables=CHANNEL_TABLES):
    """the two stores hold the same multiset of rows in every table"""
    parts = []
    for t in tables:
        A_, B_ = sa.tables[t], sb.tables[t]
        if len(A_) == len(B_):
            # same slots: position-wise equality is sufficient; fall back to counting otherwise
            pos = And(*[slots_equal(ra, rb) for ra, rb in zip(A_, B_)])
        else:
            pos = F
        cnt = []
        for r in list(A_) + list(B_):
            ca = count([And(x.p, rows_same(x, r)) for x in A_])
            cb = count([And(x.p, rows_same(x, r)) for x in B_])
            cnt.append(Implies(r.p, ca == cb))
        parts.append(Or(pos, And(*cnt)))
    return And(*parts)


def conn_by_label(w, label):
    for c in w.conns:
        if c.label == label:
            return c
    return None


def conn_state_equal(ca, cb):
    """observable per-connection protocol state"""
    if (ca is None) != (cb is None):
        return F
    if ca is None:
        return T
    parts = []
    for k in ("_did_allocate", "_did_claim", "_did_release", "_did_close", "_listening"):
        parts.append(bool(getattr(ca, k)) == bool(getattr(cb, k)))
    parts.append((ca._mailbox is None) == (cb._mailbox is None))
    parts.append((ca._app is None) == (cb._app is None))
    for k in ("_nameplate_id", "_mailbox_id", "_side"):
        va, vb = getattr(ca, k), getattr(cb, k)
        parts.append(eqv(va, vb))
    return And(*parts)


def subscribed_labels(w):
    out = set()
    for ns in w.server._apps.values():
        for mb in ns._mailboxes.values():
            for h in mb._listeners.keys():
                # (listener keys are connection objects today; anything else is reported as such)
                out.add(getattr(h, "label", "<listener key that is not a connection>"))
    return out


def all_labels(*ws):
    s = set()
    for w in ws:
        for c in w.conns:
            s.add(c.label)
    return sorted(s)


def frames_by_label(w, label, also=()):
    c = conn_by_label(w, label)
    if c is None:
        for d in also:
            if d.label == label:
                c = d
    return step_frames(c) if c is not None else []


def choice_sets_equal(wa, wb):
    """random.choice is the environment: two runs behave alike only if, call by call, they offer it the
    same candidates (a run that may answer with a value the other can never produce is a visible
    difference for some outcome of the draw).  Runs that make different numbers of calls are left to
    the frame comparison."""
    terms = []
    for sa, sb in zip(wa.choice_sets, wb.choice_sets):
        for one, other in ((sa, sb), (sb, sa)):
            for v in one:
                terms.append(Or(*[eqv(v, u) for u in other]) if other else F)
    return And(*terms) if terms else T


# =============================================================================================
@obligation("prod.config")
def prod_config(e, tier="quick", ops=None, acting=None, others=None):
    """C18: identical frames (except the `nameplates` answer) and identical channel store under
    (listing allowed, no usage store, no blur) vs. every other configuration"""
    bd = bounds(tier)
    if tier == "thorough":
        # five configurations instead of one, at the quick tier's store bounds (K=3, M=2 with all
        # configurations ran past the 3000 s cap of an obligation; K=2, M=2 past 45 minutes)
        bd = bounds("quick")
    ops = ops or [o for o in OPS if o != "bind2"]
    op = ops[e.choose(len(ops), "op")]
    cmd = make_cmd(e, op)
    if tier == "thorough":
        allowB = [True, False][e.choose(2, "allow_list")]
        usageB = ["plain", "blur", False][e.choose(3, "usage")]
        if allowB and not usageB:
            e.assume(False)       # identical to run A
    else:
        allowB, usageB = False, "blur"     # the configuration farthest from the default
    crowd = 1 if op in ("open", "claim") else 0
    shapes = acting or (["none"] if op == "sweep" else ["fresh", "sub0", "claimed0"])
    xa = build(e, crowd=crowd, acting=shapes, others=others or ["none", "sub0s1"], **bd)
    kf = kf_d6_for(cmd, xa)
    ca = xa.c
    exa = apply_cmd(xa, cmd)
    posta = xa.w.snapshot()
    conns_a = list(xa.w.conns) + ([ca] if ca is not None and ca not in xa.w.conns else [])
    fa = {c.label: step_frames(c) for c in conns_a}
    ucfg = usage_cfg(e, usageB)
    xb = build(e, crowd=crowd, allow_list=allowB, share=xa, **ucfg, **bd)
    cb = xb.c
    exb = apply_cmd(xb, cmd)
    postb = xb.w.snapshot()
    conns_b = list(xb.w.conns) + ([cb] if cb is not None and cb not in xb.w.conns else [])
    fb = {c.label: step_frames(c) for c in conns_b}
    A = {}
    A["C18.exceptions"] = (type(exa) is type(exb))
    A["C18.frames"] = And(*[frames_equal(fa.get(l, []), fb.get(l, []), skip_payload_of=("nameplates",))
                            for l in sorted(set(fa) | set(fb))])
    A["C18.store"] = stores_equal(posta, postb)
    A["C18.subscriptions"] = subscribed_labels(xa.w) == subscribed_labels(xb.w)
    A["C18.random_candidates"] = choice_sets_equal(xa.w, xb.w)
    return PathResult(A, world=[xa.w, xb.w], kf=[("KF-D6", kf)],
                      info=dict(op=op, allow=allowB, usage=usageB, shape="%s/%s" % (xa.a_shape, xa.o_shape)))


@obligation("prod.isolation")
def prod_isolation(e, tier="quick", ops=None):
    """C06 output consistency: same rows for the acting app, two independent populations for the
    other apps -> same frames for the acting app's connections, same rows for that app"""
    bd = bounds(tier)
    # the sweep is excluded here: two independent global sweeps square the path count; its
    # isolation is the per-bundle exactness of sweep.step (C06.sweep_per_bundle)
    ops = ops or [o for o in OPS if o not in ("bind2", "sweep")]
    op = ops[e.choose(len(ops), "op")]
    cmd = make_cmd(e, op)
    crowd = 1 if op in ("open", "claim") else 0
    K = bd["K"]
    foreign = list(range(1, K))           # bundles 1.. belong to other apps and differ between the runs
    shapes = ["fresh", "sub0", "claimed0"]
    xa = build(e, crowd=crowd, acting=shapes, others=["none", "sub0s1"], **bd)
    app = xa.app
    for k in foreign:
        e.assume(xa.w.bundles[k].app.z != app.z)
    kfa = kf_d6_for(cmd, xa)
    exa = apply_cmd(xa, cmd)
    posta = xa.w.snapshot()
    conns_a = list(xa.w.conns) + ([xa.c] if xa.c not in xa.w.conns else [])
    fa = {c.label: step_frames(c) for c in conns_a}
    xb = build(e, crowd=crowd, share=xa, fresh_bundles=foreign, **bd)
    for k in foreign:
        e.assume(xb.w.bundles[k].app.z != app.z)
    kfb = kf_d6_for(cmd, xb)
    exb = apply_cmd(xb, cmd)
    postb = xb.w.snapshot()
    conns_b = list(xb.w.conns) + ([xb.c] if xb.c not in xb.w.conns else [])
    fb = {c.label: step_frames(c) for c in conns_b}
    A = {}
    A["C06.exceptions"] = (type(exa) is type(exb))
    A["C06.frames"] = And(*[frames_equal(fa.get(l, []), fb.get(l, [])) for l in sorted(set(fa) | set(fb))])
    A["C06.random_candidates"] = choice_sets_equal(xa.w, xb.w)
    # rows owned by the acting app: the shared bundles that carry its app id, and every new row
    rows = []
    for k, b in enumerate(xa.w.bundles):
        if k in foreign:
            continue
        for t in CHANNEL_TABLES:
            ix = b.ix[t]
            for i in (ix if isinstance(ix, list) else [ix]):
                rows.append(slots_equal(posta.tables[t][i], postb.tables[t][i]))
    for t in CHANNEL_TABLES:
        na = posta.tables[t][len(xa.pre.tables[t]):]
        nb = postb.tables[t][len(xb.pre.tables[t]):]
        if len(na) != len(nb):
            rows.append(F)
        else:
            rows += [slots_equal(p, q) for p, q in zip(na, nb)]
    A["C06.rows"] = And(*rows)
    # ... and the foreign bundles of either run are untouched by the command (local respect)
    A["C06.foreign_untouched"] = And(*[bundle_unchanged(xa.w.bundles[k], xa.pre, posta) for k in foreign] +
                                      [bundle_unchanged(xb.w.bundles[k], xb.pre, postb) for k in foreign]) \
        if op != "sweep" else T
    return PathResult(A, world=[xa.w, xb.w], kf=[("KF-D6", Or(kfa, kfb))],
                      info=dict(op=op, shape="%s/%s" % (xa.a_shape, xa.o_shape)))


HISTORIES = ["open_add", "alloc", "claim", "open_add_sweep", "open_add_livesweep", "alloc_sweep_claim", "open_close_other",
             "claim_list_open_close", "claim_list_release", "list_other_app", "alloc_claim", "any2", "any3",
             "any2_sweep", "any3_sweep"]

# (allocate is left to the dedicated histories: its nine-way scan squares the path count of a session)
SESSION_ALPHABET = ["claim", "list", "open", "add", "release", "close"]


class Bundle_:
    pass


def run_history(x, kind, sy):
    """a short real history performed by connections that come and go before the cut; it runs
    after the pre-state was loaded, through the real handlers, identically in both runs.  `sy` holds
    the symbols shared by both runs."""
    w, e = x.w, x.e
    if w.bundles:
        b = w.bundles[0]
    else:
        # empty pre-state (generic sessions): the session's app and mailbox are free symbols
        b = Bundle_()
        b.app, b.mid = sy["g.app"], sy["g.mid"]
    w.phase = "history"

    def conn(label, app, side):
        c = w.new_conn(label)
        w.deliver(c, w.msg("bind", appid=app, side=side))
        return c
    if kind in ("open_add", "open_add_sweep", "open_add_livesweep"):
        e.assume(z3.And(b.p, b.sides[0].p))
        g = conn("gA", b.app, b.sides[0].side)
        w.deliver(g, w.msg("open", mailbox=b.mid))
        w.deliver(g, w.msg("add", phase=sy["g.phase"], body=sy["g.body"]))
        if kind == "open_add_livesweep":
            # a sweep fires while the client is still subscribed (its mailbox is re-stamped), some time
            # later the client leaves: whatever the sweep did must be on disk by the cut
            w.expire()
        w.disconnect(g)
        if kind == "open_add_sweep":
            # long silence: the next sweep finds the mailbox old
            w.clock.last = w.clock.last + z3.RealVal(TAP_E()) + 1
            w.expire()
    elif kind in ("alloc", "alloc_sweep_claim"):
        g = conn("gA", b.app, sy["g.side"])
        w.deliver(g, w.msg("allocate"))
        w.disconnect(g)
        if kind == "alloc_sweep_claim":
            w.clock.last = w.clock.last + z3.RealVal(TAP_E()) + 1
            w.expire()
            # somebody else now claims the very nameplate that was allocated and then expired
            got = [r["frame"].get("nameplate") for r in g.frames if r["frame"].get("type") == "allocated"]
            if not got:
                e.assume(False)
            h = conn("gB", b.app, sy["h.side"])
            w.deliver(h, w.msg("claim", nameplate=got[0]))
            w.disconnect(h)
    elif kind == "alloc_claim":
        # one side lets the server pick a nameplate, another side then claims a name of its own choice
        g = conn("gA", b.app, sy["g.side"])
        w.deliver(g, w.msg("allocate"))
        w.disconnect(g)
        h = conn("gB", b.app, sy["h.side"])
        w.deliver(h, w.msg("claim", nameplate=sy["h.name"]))
        w.disconnect(h)
    elif kind == "claim":
        g = conn("gA", b.app, sy["g.side"])
        w.deliver(g, w.msg("claim", nameplate=sy["h.name"]))
        w.disconnect(g)
    elif kind in ("claim_list_open_close", "claim_list_release"):
        # a whole little session: claim, look at the listing, then retire the nameplate again, either
        # by closing its mailbox while still claimed or by releasing it
        g = conn("gA", b.app, sy["g.side"])
        w.deliver(g, w.msg("claim", nameplate=sy["h.name"]))
        w.deliver(g, w.msg("list"))
        got = [r["frame"].get("mailbox") for r in g.frames if r["frame"].get("type") == "claimed"]
        if not got:
            e.assume(False)
        if kind == "claim_list_open_close":
            w.deliver(g, w.msg("open", mailbox=got[0]))
            w.deliver(g, w.msg("close", mood=sy["g.phase"]))
        else:
            w.deliver(g, w.msg("release"))
        w.disconnect(g)
    elif kind in ("any2", "any3", "any2_sweep", "any3_sweep"):
        # a generic session: one connection binds and sends 2 (3) commands chosen freely from the
        # alphabet; identifiers are the ones it was told (allocated nameplate, claimed mailbox), a free
        # symbolic name, or the mailbox of bundle 0
        n = 3 if kind.startswith("any3") else 2
        g = conn("gA", b.app, sy["g.side"])
        # the second run of the product repeats the choices (and symbols) of the first
        plan = sy.setdefault("_plan", [])
        replaying = sy.get("_plan_done", False)
        pos = [0]

        def pick(k, label):
            if replaying:
                v = plan[pos[0]]
            else:
                v = e.choose(k, label)
                plan.append(v)
            pos[0] += 1
            return v

        def shared_bool(label):
            key = "_bool_" + label
            if key not in sy:
                sy[key] = e.sym_bool(label)
            return sy[key]
        for i in range(n):
            cmd = SESSION_ALPHABET[pick(len(SESSION_ALPHABET), "session%d" % i)]
            told_np = [r["frame"].get("nameplate") for r in g.frames if r["frame"].get("type") == "allocated"]
            told_mb = [r["frame"].get("mailbox") for r in g.frames if r["frame"].get("type") == "claimed"]
            if cmd == "claim":
                names = [sy["h.name"]] + told_np[:1]
                w.deliver(g, w.msg("claim", nameplate=names[pick(len(names), "which-name")]))
            elif cmd == "open":
                ids = ([b.mid] if w.bundles else []) + [sy["g.mid"]] + told_mb[:1]
                w.deliver(g, w.msg("open", mailbox=ids[pick(len(ids), "which-mailbox") % len(ids)]))
            elif cmd == "add":
                w.deliver(g, w.msg("add", phase=sy["g.phase"], body=sy["g.body"]))
            elif cmd == "close":
                w.deliver(g, w.msg("close", mood=(shared_bool("g.has_mood%d" % i), sy["g.phase"])))
            else:
                w.deliver(g, w.msg(cmd))
        sy["_plan_done"] = True
        w.disconnect(g)
        if kind.endswith("_sweep"):
            w.clock.last = w.clock.last + z3.RealVal(TAP_E()) + 1
            w.expire()
    elif kind == "list_other_app":
        # somebody of another application looks at its listing and asks for a nameplate
        e.assume(sy["g.app"].z != b.app.z)
        g = conn("gA", sy["g.app"], sy["g.side"])
        w.deliver(g, w.msg("list"))
        w.disconnect(g)
    elif kind == "open_close_other":
        g = conn("gA", b.app, sy["g.side"])
        w.deliver(g, w.msg("open", mailbox=sy["g.mid"]))
        w.deliver(g, w.msg("add", phase=sy["g.phase"], body=sy["g.body"]))
        w.deliver(g, w.msg("close", mood=sy["g.phase"]))
        w.disconnect(g)
    w.phase = "step"


def TAP_E():
    import wormhole_mailbox_server.server_tap as TAP
    from fractions import Fraction
    return Fraction(TAP.CHANNEL_EXPIRATION_TIME)


@obligation("prod.restart")
def prod_restart(e, tier="quick", ops=None, histories=None):
    """C11: an arbitrary INV state, then a short real history by connections that come and go, then
    every connection is dropped.  Run X keeps the server object (with whatever it accumulated in
    memory), run Y rebuilds it from the store.  The same command from a fresh connection must yield
    the same frames, the same store and the same connection state in both."""
    bd = dict(bounds(tier))
    bd["K"] = 1        # the history adds rows of its own (K=2 did not finish within 40 minutes)
    c04 = None
    ops = ops or [o for o in OPS if o not in ("bind2", "disconnect")]
    op = ops[e.choose(len(ops), "op")]
    cmd = make_cmd(e, op)
    hl = histories or HISTORIES
    hist = hl[e.choose(len(hl), "history")]
    if hist.startswith("any"):
        bd["K"] = 0    # generic sessions start from the empty store
    sy = {k: e.sym_str(k) for k in ("g.side", "h.side", "h.name", "g.phase", "g.body", "g.mid", "g.app")}
    crowd = 0
    xa = build(e, crowd=crowd, acting=["none"], others=["none"], **bd)
    run_history(xa, hist, sy)
    # the reconnecting client: any (app, side), in particular those used before the cut
    app, side = e.sym_str("c.app"), e.sym_str("c.side")
    results = []
    for which in ("kept", "restarted"):
        if which == "restarted":
            xb = build(e, crowd=crowd, share=xa, **bd)
            run_history(xb, hist, sy)
            xb.w.restart()
            x = xb
        else:
            x = xa
        w = x.w
        c = w.new_conn("c0")
        x.c, x.app, x.side = c, app, side
        bex = w.deliver(c, w.msg("bind", appid=app, side=side))
        before_cmd = w.snapshot()
        ex = apply_cmd(x, cmd) if op != "sweep" else w.expire()
        if which == "kept" and op == "allocate":
            got = [r["frame"].get("nameplate") for r in step_frames(c) if ftype(r) == "allocated"]
            if got:
                # C04 on a server with a past: the answer is not a name the app already had in use
                held = Or(*[And(r.p, r.v["app_id"] == app.z, eqv(col_value(before_cmd, "nameplates", r, "name"), got[0]))
                            for r in before_cmd.tables["nameplates"]])
                c04 = z3.Not(held)
        results.append(dict(x=x, bex=bex, ex=ex, post=w.snapshot(),
                            frames={cc.label: [r for r in step_frames(cc)] for cc in w.conns}))
    ra, rb = results
    kf = Or(kf_d6_for(cmd, ra["x"]), kf_d6_for(cmd, rb["x"]))
    A = {}
    A["C11.exceptions"] = (type(ra["ex"]) is type(rb["ex"]) and type(ra["bex"]) is type(rb["bex"]))
    A["C11.frames"] = And(*[frames_equal(ra["frames"].get(l, []), rb["frames"].get(l, []))
                            for l in sorted(set(ra["frames"]) | set(rb["frames"]))])
    A["C11.store"] = stores_equal(ra["post"], rb["post"])
    A["C11.related"] = And(subscribed_labels(ra["x"].w) == subscribed_labels(rb["x"].w),
                           conn_state_equal(conn_by_label(ra["x"].w, "c0"), conn_by_label(rb["x"].w, "c0")))
    A["C11.random_candidates"] = choice_sets_equal(ra["x"].w, rb["x"].w)
    if c04 is not None:
        A["C04.free_after_history"] = c04
    return PathResult(A, world=[ra["x"].w, rb["x"].w], kf=[("KF-D6", kf)],
                      info=dict(op=op, history=hist))


SUCCESS = {"claim": ["ack", "claimed"], "release": ["ack", "released"], "close": ["ack", "closed"]}


@obligation("prod.resend")
def prod_resend(e, tier="quick", ops=None):
    """C14: run 1 = cmd on c1; run 2 = cmd on c1, then a fresh connection binds the same (app, side)
    and sends the same cmd at the same instant.  Same answer, same store, no stray frame."""
    bd = bounds(tier)
    ops = ops or ["claim", "release", "open", "close"]
    op = ops[e.choose(len(ops), "op")]
    cmd = make_cmd(e, op)
    crowd = 1 if op in ("open", "claim") else 0
    shapes = {"claim": ["fresh", "sub0"], "release": ["fresh", "claimed0"], "open": ["fresh"],
              "close": ["fresh", "sub0"]}[op]
    xa = build(e, crowd=crowd, acting=shapes, others=["none", "sub0s1", "sub0s0"], **bd)
    kf = kf_d6_for(cmd, xa)
    exa = apply_cmd(xa, cmd)
    posta = xa.w.snapshot()
    fa = step_frames(xa.c)
    types_a = [ftype(r) for r in fa]
    if op == "open":
        ok = exa is None and len(types_a) >= 1 and types_a[0] == "ack" and all(t == "message" for t in types_a[1:])
    else:
        ok = exa is None and types_a == SUCCESS[op]
    if not ok:
        e.assume(False)            # only successfully answered commands are re-sent
    # run 2
    xb = build(e, crowd=crowd, share=xa, **bd)
    exb = apply_cmd(xb, cmd)
    fb1 = step_frames(xb.c)
    when = xb.w.clock.values[0]
    n_before = {c.label: len(step_frames(c)) for c in xb.w.conns}
    subs_before = subscribed_labels(xb.w)
    state_before = {c.label: (c._mailbox, bool(c._listening)) for c in xb.w.conns}
    xb.w.clock.frozen = when
    c2 = xb.w.new_conn("c2")
    b_ex = xb.w.deliver(c2, xb.w.msg("bind", appid=xb.app, side=xb.side))
    # the re-sent command names its target explicitly (a new connection remembers nothing)
    f2_ = dict(cmd.f)
    if op == "release":
        pres, v = cmd.f["nameplate"]
        held = xa.w.bundles[0].name if xa.a_shape == "claimed0" else None
        f2_["nameplate"] = (T, SStr(z3.If(pres, v.z, held.z)) if held is not None else v)
    if op == "close":
        pres, v = cmd.f["mailbox"]
        held = xa.w.bundles[0].mid if xa.a_shape == "sub0" else None
        f2_["mailbox"] = (T, SStr(z3.If(pres, v.z, held.z)) if held is not None else v)
    exb2 = xb.w.deliver(c2, xb.w.msg(op, **f2_))
    postb = xb.w.snapshot()
    f2 = [r for r in step_frames(c2)][2:]          # after welcome + the bind's ack
    A = {}
    A["C14.first_run_same"] = And(type(exa) is type(exb), frames_equal(fa, fb1))
    A["C14.no_exception"] = (b_ex is None and exb2 is None)
    A["C14.same_answer"] = frames_equal(fa, f2, skip_payload_of=())
    A["C14.store"] = stores_equal(posta, postb)
    A["C14.no_stray_frames"] = all(len(step_frames(c)) == n_before[c.label] for c in xb.w.conns if c is not c2)
    A["C14.subscriptions"] = And((subscribed_labels(xb.w) - {"c2"}) == subs_before,
                                 all((c._mailbox, bool(c._listening)) == state_before[c.label]
                                     for c in xb.w.conns if c is not c2))
    # why a command is re-sent: the first connection is dying.  When the server notices, the new
    # connection's standing (handle <=> registered subscriber) must be intact.
    d_ex = xb.w.disconnect(xb.c)
    im = inv_mem(xb.w, xb.w.snapshot())
    A["C14.old_connection_drop"] = And(d_ex is None, *[v for v in im.values()])
    xb.w.obs.append(("mem", {k: (v if isinstance(v, bool) else SBool(v)) for k, v in im.items()}))
    return PathResult(A, world=[xa.w, xb.w], kf=[("KF-D6", kf)],
                      info=dict(op=op, shape="%s/%s" % (xa.a_shape, xa.o_shape)))
