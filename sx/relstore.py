"""RelStore: the sqlite3 stand-in.  A *merged* relational store: every table is a list of row
slots (present: Bool term, column -> term, column -> null-bit term).  WHERE clauses become match
terms per slot, UPDATE/DELETE rewrite slots with If(match, ..), fetchone costs one decision,
fetchall forks per slot.  The catalog is whatever CREATE TABLE statements were executed (the
harness feeds it the real db-schemas/*.sql), the statements are whatever the real code passes to
execute().  Anything outside the supported subset raises Unsupported (=> inconclusive).
"""
import re, sqlite3
from collections.abc import Mapping
import z3
from .engine import (E, SBool, SStr, SNum, SOpt, Z, W, Unsupported, Inconclusive, tobool, kind_of)

# column kinds: 's' text (order-embedded into the reals, see engine), 'i' integer/boolean, 'r' real
STR, INT, REAL = "s", "i", "r"
KSORT = {"s": z3.RealSort(), "i": z3.IntSort(), "r": z3.RealSort()}

# ---------------------------------------------------------------------------------------------
# tokenizer / parser for the SQL subset
# ---------------------------------------------------------------------------------------------
_TOK = re.compile(r"""\s*(?:
    (?P<q>`[^`]*`|"[^"]*"|\[[^\]]*\]) |
    (?P<str>'(?:[^']|'')*') |
    (?P<num>\d+(?:\.\d+)?) |
    (?P<id>[A-Za-z_][A-Za-z_0-9]*) |
    (?P<op><=|>=|!=|<>|==|[=<>(),;*?.+\-])
)""", re.X)

KEYWORDS = {"SELECT", "FROM", "WHERE", "AND", "OR", "NOT", "IS", "NULL", "IN", "ORDER", "BY", "ASC",
            "DESC", "LIMIT", "INSERT", "INTO", "VALUES", "UPDATE", "SET", "DELETE", "DISTINCT",
            "COUNT", "PRAGMA", "CREATE", "TABLE", "INDEX", "ON", "BEGIN", "COMMIT", "TRANSACTION",
            "PRIMARY", "KEY", "AUTOINCREMENT", "REFERENCES", "AS", "END", "UNIQUE", "IF", "EXISTS",
            "DROP", "REPLACE", "ALTER", "ROLLBACK", "UNION", "ALL"}


def strip_comments(sql):
    return re.sub(r"--[^\n]*", "", sql)


def tokenize(sql):
    sql = strip_comments(sql)
    out, pos = [], 0
    while pos < len(sql):
        if sql[pos:].strip() == "":
            break
        m = _TOK.match(sql, pos)
        if not m:
            raise Unsupported("SQL token at %r" % sql[pos:pos + 20])
        pos = m.end()
        if m.group("q"):
            out.append(("id", m.group("q")[1:-1]))
        elif m.group("str"):
            out.append(("str", m.group("str")[1:-1].replace("''", "'")))
        elif m.group("num"):
            t = m.group("num")
            out.append(("num", float(t) if "." in t else int(t)))
        elif m.group("id"):
            w = m.group("id")
            if w.upper() in KEYWORDS:
                out.append(("kw", w.upper()))
            else:
                out.append(("id", w))
        else:
            out.append(("op", m.group("op")))
    return out


class P:
    def __init__(self, toks, sql):
        self.t, self.i, self.sql = toks, 0, sql
        self.nparam = 0

    def peek(self, k=0):
        return self.t[self.i + k] if self.i + k < len(self.t) else (None, None)

    def at(self, kind, val=None):
        k, v = self.peek()
        return k == kind and (val is None or v == val)

    def kw(self, *words):
        for j, w in enumerate(words):
            k, v = self.peek(j)
            if not (k == "kw" and v == w):
                return False
        self.i += len(words)
        return True

    def need_kw(self, *words):
        if not self.kw(*words):
            raise Unsupported("SQL: expected %s in %r" % (" ".join(words), self.sql))

    def op(self, o):
        if self.at("op", o):
            self.i += 1
            return True
        return False

    def need_op(self, o):
        if not self.op(o):
            raise Unsupported("SQL: expected %r in %r" % (o, self.sql))

    def ident(self):
        k, v = self.peek()
        if k == "id":
            self.i += 1
            return v
        # tolerate keywords used as column names (e.g. `version`, `key`) when quoted: they arrive as id
        raise Unsupported("SQL: identifier expected at %r in %r" % ((k, v), self.sql))

    def done(self):
        while self.op(";"):
            pass
        if self.i != len(self.t):
            raise Unsupported("SQL: trailing tokens %r in %r" % (self.t[self.i:], self.sql))

    # ---- expressions ----
    def value(self):
        k, v = self.peek()
        if k == "op" and v == "?":
            self.i += 1
            n = self.nparam
            self.nparam += 1
            return ("param", n)
        if k == "str":
            self.i += 1
            return ("lit", v)
        if k == "num":
            self.i += 1
            return ("lit", v)
        if k == "kw" and v == "NULL":
            self.i += 1
            return ("lit", None)
        if k == "op" and v == "-" and self.peek(1)[0] == "num":
            self.i += 2
            return ("lit", -self.peek(-1)[1])
        raise Unsupported("SQL: value expected at %r in %r" % ((k, v), self.sql))

    def cond(self):
        left = self.cond_and()
        while self.kw("OR"):
            left = ("or", left, self.cond_and())
        return left

    def cond_and(self):
        left = self.cond_not()
        while self.kw("AND"):
            left = ("and", left, self.cond_not())
        return left

    def cond_not(self):
        if self.kw("NOT"):
            return ("not", self.cond_not())
        if self.at("op", "("):
            self.i += 1
            c = self.cond()
            self.need_op(")")
            return c
        return self.pred()

    def pred(self):
        col = self.ident()
        if self.kw("IS"):
            neg = self.kw("NOT")
            self.need_kw("NULL")
            return ("isnull", col, neg)
        neg = self.kw("NOT")
        if self.kw("IN"):
            self.need_op("(")
            if self.at("kw", "SELECT"):
                sub = self.select()
                self.need_op(")")
                return ("insub", col, sub, neg)
            vals = [self.value()]
            while self.op(","):
                vals.append(self.value())
            self.need_op(")")
            return ("inlist", col, vals, neg)
        if neg:
            raise Unsupported("SQL: NOT without IN in %r" % self.sql)
        k, v = self.peek()
        if k == "op" and v in ("=", "==", "!=", "<>", "<", "<=", ">", ">="):
            self.i += 1
            return ("cmp", col, {"==": "=", "<>": "!="}.get(v, v), self.value())
        raise Unsupported("SQL: predicate at %r in %r" % ((k, v), self.sql))

    # ---- statements ----
    def select(self):
        self.need_kw("SELECT")
        what = None
        if self.op("*"):
            what = ("star",)
        elif self.kw("DISTINCT"):
            what = ("distinct", self.ident())
        elif self.kw("COUNT"):
            self.need_op("(")
            self.op("*")
            self.need_op(")")
            alias = "COUNT(*)"
            if self.kw("AS"):
                alias = self.ident()
            elif self.at("id"):
                alias = self.ident()
            what = ("count", alias)
        else:
            cols = [self.ident()]
            while self.op(","):
                cols.append(self.ident())
            what = ("cols", cols)
        self.need_kw("FROM")
        table = self.ident()
        where = self.cond() if self.kw("WHERE") else None
        order = None
        if self.kw("ORDER", "BY"):
            oc = self.ident()
            desc = False
            if self.kw("DESC"):
                desc = True
            else:
                self.kw("ASC")
            order = (oc, desc)
        limit = None
        if self.kw("LIMIT"):
            k, v = self.peek()
            if k != "num":
                raise Unsupported("SQL: LIMIT needs a literal in %r" % self.sql)
            self.i += 1
            limit = v
        return ("select", what, table, where, order, limit)

    def statement(self):
        if self.at("kw", "SELECT"):
            s = self.select()
            arms = [s]
            kinds = []
            while self.kw("UNION"):
                kinds.append("all" if self.kw("ALL") else "distinct")
                arms.append(self.select())
            if len(arms) > 1:
                s = ("compound", arms, kinds)
        elif self.kw("INSERT", "INTO"):
            table = self.ident()
            self.need_op("(")
            cols = [self.ident()]
            while self.op(","):
                cols.append(self.ident())
            self.need_op(")")
            self.need_kw("VALUES")
            self.need_op("(")
            vals = [self.value()]
            while self.op(","):
                vals.append(self.value())
            self.need_op(")")
            if len(cols) != len(vals):
                raise sqlite3.OperationalError("%d values for %d columns" % (len(vals), len(cols)))
            s = ("insert", table, cols, vals)
        elif self.kw("UPDATE"):
            table = self.ident()
            self.need_kw("SET")
            sets = []
            while True:
                c = self.ident()
                self.need_op("=")
                sets.append((c, self.value()))
                if not self.op(","):
                    break
            where = self.cond() if self.kw("WHERE") else None
            s = ("update", table, sets, where)
        elif self.kw("DELETE", "FROM"):
            table = self.ident()
            where = self.cond() if self.kw("WHERE") else None
            s = ("delete", table, where)
        elif self.kw("PRAGMA"):
            name = self.ident()
            val = None
            if self.op("="):
                k, v = self.peek()
                self.i += 1
                val = v
            elif self.op("("):
                k, v = self.peek()
                self.i += 1
                val = v
                self.need_op(")")
            s = ("pragma", name.lower(), val)
        elif self.kw("BEGIN"):
            self.kw("TRANSACTION")
            s = ("begin",)
        elif self.kw("COMMIT") or self.kw("END"):
            self.kw("TRANSACTION")
            s = ("commit",)
        elif self.kw("CREATE", "TABLE"):
            s = self.create_table()
        elif self.at("kw", "CREATE"):
            self.i += 1
            unique = self.kw("UNIQUE")
            self.need_kw("INDEX")
            name = self.ident()
            self.need_kw("ON")
            table = self.ident()
            self.need_op("(")
            cols = [self.ident()]
            while self.op(","):
                cols.append(self.ident())
            self.need_op(")")
            s = ("create_index", name, table, cols, unique)
        else:
            raise Unsupported("SQL statement %r" % self.sql)
        self.done()
        return s

    def create_table(self):
        name = self.ident()
        self.need_op("(")
        cols = []
        while True:
            cname = self.ident()
            ctype, pk, auto, ref = None, False, False, None
            while not (self.at("op", ",") or self.at("op", ")")):
                if self.kw("PRIMARY", "KEY"):
                    pk = True
                elif self.kw("AUTOINCREMENT"):
                    auto = True
                elif self.kw("REFERENCES"):
                    rt = self.ident()
                    self.need_op("(")
                    rc = self.ident()
                    self.need_op(")")
                    ref = (rt, rc)
                elif self.at("id"):
                    ctype = self.ident().upper()
                else:
                    raise Unsupported("SQL: column definition in %r" % self.sql)
            cols.append(dict(name=cname, type=ctype, pk=pk, auto=auto, ref=ref))
            if self.op(")"):
                break
            self.need_op(",")
        return ("create_table", name, cols)


_parse_cache = {}


def parse(sql):
    if sql not in _parse_cache:
        p = P(tokenize(sql), sql)
        st = p.statement()
        _parse_cache[sql] = (st, p.nparam)
    return _parse_cache[sql]


def split_script(script):
    script = strip_comments(script)
    return [s.strip() for s in script.split(";") if s.strip()]


# ---------------------------------------------------------------------------------------------
# rows, tables, snapshots
# ---------------------------------------------------------------------------------------------
class Row:
    __slots__ = ("p", "v", "n")

    def __init__(self, p, v, n):
        self.p, self.v, self.n = p, v, n

    def copy(self):
        return Row(self.p, dict(self.v), dict(self.n))


class Table:
    def __init__(self, name, cols):
        self.name = name
        self.cols = cols            # list of dicts name,type,pk,auto,ref, sort
        self.colnames = [c["name"] for c in cols]
        self.sort = {c["name"]: c["sort"] for c in cols}
        self.rows = []
        self.pk = [c["name"] for c in cols if c["pk"]]
        self.auto = [c["name"] for c in cols if c["auto"]]
        self.refs = [(c["name"], c["ref"][0], c["ref"][1]) for c in cols if c["ref"]]
        self.next_id = z3.IntVal(1)   # AUTOINCREMENT counter (only for tables with auto)


INT_COLUMNS = {("version", "version")}   # INTEGER columns that hold small integers, not times


def column_sort(table, col, catalog):
    t = (col["type"] or "").upper()
    if col["auto"]:
        return INT
    if col["ref"]:
        rt, rc = col["ref"]
        if rt in catalog:
            return catalog[rt].sort[rc]
        # forward reference (channel-v1.sql declares nameplates before mailboxes): resolved by type
        if t in ("", "INTEGER"):
            return INT if t == "INTEGER" else STR
    if t in ("VARCHAR", "TEXT", "STRING"):
        return STR
    if t == "BOOLEAN":
        return INT
    if t == "INTEGER":
        return INT if (table, col["name"]) in INT_COLUMNS else REAL
    if t == "":
        return STR
    raise Unsupported("column type %r" % t)


def coerce(val, sort, what=""):
    """(term, kind) -> term of the column's kind (type affinity beyond int->real is outside the claim)"""
    term, kind = val
    if kind == sort:
        return term
    if sort == REAL and kind == INT:
        return z3.ToReal(term)
    if sort == INT and kind == REAL:
        s = z3.simplify(term)
        if z3.is_rational_value(s) and s.denominator_as_long() == 1:
            return z3.IntVal(s.numerator_as_long())
        if z3.is_app(s) and s.decl().kind() == z3.Z3_OP_TO_REAL:
            return s.arg(0)
        return z3.ToInt(term)
    raise Unsupported("type affinity: storing a %s value into %s column %s" % (kind, sort, what))


def zk(x):
    """python value / proxy -> (term, kind)"""
    if isinstance(x, tuple) and len(x) == 2 and x[1] in ("s", "i", "r"):
        return x
    return (Z(x), kind_of(x))


class RowView(Mapping):
    """what dict_factory would give: column -> value; NULLs decided lazily on access"""

    def __init__(self, table, vals, nulls, names=None, kinds=None):
        self._t, self._v, self._n = table, vals, nulls
        self._names = names or list(vals.keys())
        self._k = kinds or (table.sort if table is not None else {})
        self._cache = {}

    def __getitem__(self, c):
        if c not in self._v:
            raise KeyError(c)
        if c not in self._cache:
            nb = self._n.get(c)
            if nb is not None and E().decide(nb):
                self._cache[c] = None
            else:
                self._cache[c] = W(self._v[c], self._k.get(c))
        return self._cache[c]

    def __iter__(self):
        return iter(self._names)

    def __len__(self):
        return len(self._names)

    def __bool__(self):
        return True

    def fresh(self):
        """same row, no cached NULL decisions (for merged re-executions)"""
        return RowView(self._t, self._v, self._n, self._names, self._k)

    def term(self, c):
        return self._v[c]

    def null(self, c):
        return self._n[c]


class Cursor:
    def __init__(self, store, rows=None, lastrowid=None, lazy=None):
        self._store, self._rows, self.lastrowid, self._lazy = store, rows, lastrowid, lazy
        self._pos = 0
        self.rowcount = -1

    def _force(self):
        if self._rows is None:
            self._rows = self._lazy() if self._lazy else []
        return self._rows

    def fetchone(self):
        if self._lazy is not None and self._rows is None and hasattr(self._lazy, "one"):
            r = self._lazy.one()
            self._rows = []
            return r
        rows = self._force()
        if self._pos < len(rows):
            self._pos += 1
            return rows[self._pos - 1]
        return None

    def fetchall(self):
        rows = self._force()
        out = rows[self._pos:]
        self._pos = len(rows)
        return out

    def fetchmany(self, n=1):
        rows = self._force()
        out = rows[self._pos:self._pos + n]
        self._pos += len(out)
        return out

    def __iter__(self):
        return iter(self.fetchall())

    def close(self):
        pass


class ConnCursor:
    """db.cursor(): statements go to the connection, results are read from the last one"""

    def __init__(self, store):
        self._store, self._cur = store, None
        self.lastrowid, self.rowcount = None, -1

    def execute(self, sql, params=()):
        self._cur = self._store.execute(sql, params)
        self.lastrowid, self.rowcount = self._cur.lastrowid, self._cur.rowcount
        return self

    def executemany(self, sql, seq):
        self._cur = self._store.executemany(sql, seq)
        return self

    def executescript(self, script):
        self._store.executescript(script)
        return self

    def fetchone(self):
        return self._cur.fetchone() if self._cur is not None else None

    def fetchall(self):
        return self._cur.fetchall() if self._cur is not None else []

    def fetchmany(self, n=1):
        return self.fetchall()[:n]

    def __iter__(self):
        return iter(self.fetchall())

    def close(self):
        pass


class Snapshot:
    """immutable copy of all tables (terms are immutable, so this is a shallow copy of slots)"""

    def __init__(self, store):
        self.tables = {t: [r.copy() for r in tb.rows] for t, tb in store.tables.items()}
        self.next_id = {t: tb.next_id for t, tb in store.tables.items()}
        self.catalog = {t: [dict(c) for c in tb.cols] for t, tb in store.tables.items()}
        self.indexes = dict(store.indexes)


class RelStore:
    """one sqlite3 connection + the database behind it"""

    def __init__(self, label="db"):
        self.label = label
        self.tables = {}
        self.indexes = {}
        self.foreign_keys = False
        self.in_tx = False            # an (implicit or explicit) transaction is open
        self.dirty = False            # uncommitted DML/DDL exists
        self.committed = Snapshot(self)
        self.commit_log = []          # [(label, Snapshot)] in order
        self.stmt_log = []            # [(kind, sql)]
        self.pragmas = []
        self.row_factory = None
        self.fault = None             # callable(idx, sql) -> raise, or None
        self.n_exec = 0
        self.closed = False
        self.total_changes = z3.IntVal(0)   # sqlite3.Connection.total_changes (rows inserted/updated/deleted)
        self.on_event = None          # callback(kind, detail) for crash-point numbering
        self.observers = []           # callables invoked on commit (C09)

    def __getattribute__(self, name):
        if name == "total_changes":
            from .engine import W
            return W(object.__getattribute__(self, "total_changes"), "i")
        return object.__getattribute__(self, name)

    def reopen(self):
        """a new connection object to the same database (what a restarted process holds): committed
        content only"""
        n = RelStore(self.label)
        n._restore(self.committed)
        n.committed = Snapshot(n)
        n.foreign_keys = self.foreign_keys
        n.fault = None
        return n

    # ---- catalog ----
    def _create_table(self, name, cols):
        if name in self.tables:
            raise sqlite3.OperationalError("table %s already exists" % name)
        cat = self.tables
        for c in cols:
            c["sort"] = None
        tb_cols = []
        for c in cols:
            c = dict(c)
            c["sort"] = column_sort(name, c, cat)
            tb_cols.append(c)
        self.tables[name] = Table(name, tb_cols)

    def load_schema(self, script):
        """run a schema script as sqlite would and commit (used by harnesses to build stores)"""
        self.executescript(script)
        self._resolve_forward_refs()
        self.commit()

    def _resolve_forward_refs(self):
        for tb in self.tables.values():
            for c in tb.cols:
                if c["ref"] and c["ref"][0] in self.tables:
                    want = self.tables[c["ref"][0]].sort[c["ref"][1]]
                    if c["sort"] != want:
                        if tb.rows:
                            raise Unsupported("forward FK reference resolved after rows exist")
                        c["sort"] = want
                        tb.sort[c["name"]] = want

    # ---- helpers ----
    def _event(self, kind, detail=""):
        if self.on_event:
            self.on_event(self, kind, detail)

    def _val(self, v, params):
        """value node -> (term or None, nullbit)"""
        if v[0] == "param":
            if v[1] >= len(params):
                raise sqlite3.ProgrammingError("Incorrect number of bindings supplied")
            x = params[v[1]]
        else:
            x = v[1]
        if x is None:
            return None
        if isinstance(x, (list, tuple, dict, bytes)):
            raise sqlite3.InterfaceError("Error binding parameter - probably unsupported type.")
        if isinstance(x, SOpt):
            t, k = zk(x.value)
            return (t, k, x.null)
        return zk(x)

    def _match(self, tb, cond, params):
        """per-slot match term (present ∧ WHERE is TRUE)"""
        out = []
        for r in tb.rows:
            if cond is None:
                out.append(r.p)
            else:
                t, f = self._eval(tb, r, cond, params)
                out.append(z3.simplify(z3.And(r.p, t)))
        return out

    def _eval(self, tb, r, c, params):
        """three-valued: returns (is_true, is_false) terms"""
        k = c[0]
        if k == "and":
            t1, f1 = self._eval(tb, r, c[1], params)
            t2, f2 = self._eval(tb, r, c[2], params)
            return z3.And(t1, t2), z3.Or(f1, f2)
        if k == "or":
            t1, f1 = self._eval(tb, r, c[1], params)
            t2, f2 = self._eval(tb, r, c[2], params)
            return z3.Or(t1, t2), z3.And(f1, f2)
        if k == "not":
            t, f = self._eval(tb, r, c[1], params)
            return f, t
        if k == "isnull":
            col, neg = c[1], c[2]
            self._need_col(tb, col)
            nb = r.n[col]
            return (z3.Not(nb), nb) if neg else (nb, z3.Not(nb))
        if k == "cmp":
            col, op, v = c[1], c[2], c[3]
            self._need_col(tb, col)
            pv = self._val(v, params)
            if pv is None:
                return z3.BoolVal(False), z3.BoolVal(False)
            if len(pv) == 3:
                raise Unsupported("merged optional value in a WHERE clause")
            a = r.v[col]
            b = coerce_cmp(pv, tb.sort[col])
            if b is None:        # comparing values of different storage classes: never equal
                if op == "=":
                    rel = z3.BoolVal(False)
                elif op == "!=":
                    rel = z3.BoolVal(True)
                else:
                    raise Unsupported("ordering comparison across storage classes")
            else:
                a2, b2 = a, b
                if a2.sort() != b2.sort():
                    a2 = z3.ToReal(a2) if z3.is_int(a2) else a2
                    b2 = z3.ToReal(b2) if z3.is_int(b2) else b2
                rel = {"=": a2 == b2, "!=": a2 != b2, "<": a2 < b2, "<=": a2 <= b2, ">": a2 > b2,
                       ">=": a2 >= b2}[op]
            nn = z3.Not(r.n[col])
            return z3.And(nn, rel), z3.And(nn, z3.Not(rel))
        if k == "inlist":
            col, vals, neg = c[1], c[2], c[3]
            self._need_col(tb, col)
            alts = []
            for v in vals:
                pv = self._val(v, params)
                if pv is None:
                    continue
                b = coerce_cmp(pv, tb.sort[col])
                if b is not None:
                    a2, b2 = r.v[col], b
                    if a2.sort() != b2.sort():
                        a2 = z3.ToReal(a2) if z3.is_int(a2) else a2
                        b2 = z3.ToReal(b2) if z3.is_int(b2) else b2
                    alts.append(a2 == b2)
            hit = z3.Or(*alts) if alts else z3.BoolVal(False)
            nn = z3.Not(r.n[col])
            t, f = z3.And(nn, hit), z3.And(nn, z3.Not(hit))
            return (f, t) if neg else (t, f)
        if k == "insub":
            col, sub, neg = c[1], c[2], c[3]
            self._need_col(tb, col)
            _, what, stable, swhere, _, _ = sub
            if what[0] not in ("cols", "distinct"):
                raise Unsupported("IN (SELECT ...) must select one column")
            scol = what[1][0] if what[0] == "cols" else what[1]
            if what[0] == "cols" and len(what[1]) != 1:
                raise Unsupported("IN (SELECT ...) must select one column")
            stb = self._table(stable)
            if scol not in stb.sort and scol in tb.sort:
                # SQLite resolves a name the inner table does not have against the OUTER row (a
                # correlated subquery): the subquery then yields the outer row's own value once per
                # matching inner row
                sm = self._match(stb, swhere, params)
                some = z3.Or(*sm) if sm else z3.BoolVal(False)
                a, b = r.v[col], r.v[scol]
                same = (a == b) if tb.sort[col] == tb.sort[scol] else z3.BoolVal(False)
                hit = z3.And(some, z3.Not(r.n[scol]), same)
                nn = z3.Not(r.n[col])
                t, f = z3.And(nn, hit), z3.And(nn, z3.Not(hit))
                return (f, t) if neg else (t, f)
            self._need_col(stb, scol)
            sm = self._match(stb, swhere, params)
            alts = []
            for sr, m in zip(stb.rows, sm):
                a, b = r.v[col], sr.v[scol]
                ka, kb = tb.sort[col], stb.sort[scol]
                if ka != kb:
                    if {ka, kb} == {INT, REAL}:
                        a = z3.ToReal(a) if ka == INT else a
                        b = z3.ToReal(b) if kb == INT else b
                    else:
                        continue
                alts.append(z3.And(m, z3.Not(sr.n[scol]), a == b))
            hit = z3.Or(*alts) if alts else z3.BoolVal(False)
            nn = z3.Not(r.n[col])
            t, f = z3.And(nn, hit), z3.And(nn, z3.Not(hit))
            return (f, t) if neg else (t, f)
        raise Unsupported("condition %r" % (c,))

    def _table(self, name):
        if name not in self.tables:
            raise sqlite3.OperationalError("no such table: %s" % name)
        return self.tables[name]

    def _need_col(self, tb, col):
        if col not in tb.sort:
            raise sqlite3.OperationalError("no such column: %s" % col)

    def _begin_implicit(self):
        self.in_tx = True
        self.dirty = True

    # ---- public sqlite3.Connection surface ----
    def execute(self, sql, params=()):
        if self.closed:
            raise sqlite3.ProgrammingError("Cannot operate on a closed database.")
        idx = self.n_exec
        self.n_exec += 1
        self._event("execute", sql)
        if self.fault is not None:
            self.fault(self, idx, sql)
        st, nparam = parse(sql)
        params = list(params)
        if st[0] not in ("pragma",) and nparam != len(params):
            raise sqlite3.ProgrammingError(
                "Incorrect number of bindings supplied. The current statement uses %d, and there"
                " are %d supplied." % (nparam, len(params)))
        return self._run(st, params, sql, script=False)

    def _run(self, st, params, sql, script):
        k = st[0]
        self.stmt_log.append((k if k != "compound" else "select", sql))
        if k == "select":
            return self._select(st, params)
        if k == "compound":
            return self._compound(st, params)
        if k == "insert":
            if not script:
                self._begin_implicit()
            return self._insert(st, params)
        if k == "update":
            if not script:
                self._begin_implicit()
            return self._update(st, params)
        if k == "delete":
            if not script:
                self._begin_implicit()
            return self._delete(st, params)
        if k == "pragma":
            return self._pragma(st)
        if k == "create_table":
            self._create_table(st[1], [dict(c) for c in st[2]])
            self.dirty = True
            if not self.in_tx:
                self._autocommit("ddl")
            return Cursor(self, [])
        if k == "create_index":
            if st[1] in self.indexes:
                raise sqlite3.OperationalError("index %s already exists" % st[1])
            tb = self._table(st[2])
            for c in st[3]:
                self._need_col(tb, c)
            self.indexes[st[1]] = (st[2], tuple(st[3]), st[4])
            self.dirty = True
            if not self.in_tx:
                self._autocommit("ddl")
            return Cursor(self, [])
        if k == "begin":
            if self.in_tx:
                raise sqlite3.OperationalError("cannot start a transaction within a transaction")
            self.in_tx = True
            return Cursor(self, [])
        if k == "commit":
            self.commit()
            return Cursor(self, [])
        raise Unsupported("statement kind %s" % k)

    def _autocommit(self, label):
        self.committed = Snapshot(self)
        self.commit_log.append((label, self.committed))
        self.dirty = False
        self._event("commit", label)
        for o in self.observers:
            o(self)

    def commit(self):
        if self.closed:
            raise sqlite3.ProgrammingError("Cannot operate on a closed database.")
        self._event("commit?", "")
        if self.in_tx or self.dirty:
            self.in_tx = False
            self._autocommit("commit")

    def rollback(self):
        self._restore(self.committed)
        self.in_tx = False
        self.dirty = False

    def close(self):
        if self.in_tx or self.dirty:
            self._restore(self.committed)
        self.in_tx = False
        self.dirty = False
        self.closed = True
        self._event("close", "")

    def _restore(self, snap):
        for t in list(self.tables):
            if t not in snap.tables:
                del self.tables[t]
        for t, rows in snap.tables.items():
            if t not in self.tables:
                self.tables[t] = Table(t, [dict(c) for c in snap.catalog[t]])
            self.tables[t].rows = [r.copy() for r in rows]
            self.tables[t].next_id = snap.next_id[t]
        self.indexes = dict(snap.indexes)

    # ---- more of the sqlite3.Connection surface (used by plausible refactorings) ----
    @property
    def in_transaction(self):
        return bool(self.in_tx or self.dirty)

    isolation_level = ""

    def cursor(self):
        return ConnCursor(self)

    def executemany(self, sql, seq):
        cur = None
        for params in seq:
            cur = self.execute(sql, params)
        return cur if cur is not None else Cursor(self, [])

    def __enter__(self):
        return self

    def __exit__(self, et, ev, tb):
        # sqlite3's context manager: commit on success, roll back on an exception, never swallow it
        if et is None:
            self.commit()
        elif not issubclass(et, (BaseException,)) or issubclass(et, Exception):
            self.rollback()
        return False

    def executescript(self, script):
        if self.closed:
            raise sqlite3.ProgrammingError("Cannot operate on a closed database.")
        # Python's contract: COMMIT a pending transaction first, then run in autocommit mode;
        # transaction control inside the script is the script's own business.
        if self.in_tx or self.dirty:
            self.commit()
        for s in split_script(script):
            self._event("script-stmt", s)
            idx = self.n_exec
            self.n_exec += 1
            if self.fault is not None:
                self.fault(self, idx, s)
            st, nparam = parse(s)
            if nparam:
                raise sqlite3.ProgrammingError("script with bindings")
            self._run(st, [], s, script=True)
            if st[0] in ("insert", "update", "delete"):
                self.dirty = True
                if not self.in_tx:
                    self._autocommit("script")
        return Cursor(self, [])

    # ---- statements ----
    def _pragma(self, st):
        name, val = st[1], st[2]
        self.pragmas.append((name, val))
        if name == "foreign_keys":
            if val is not None:
                self.foreign_keys = str(val).upper() in ("ON", "1", "TRUE", "YES")
            return Cursor(self, [RowView(None, {"foreign_keys": z3.IntVal(int(self.foreign_keys))},
                                         {"foreign_keys": z3.BoolVal(False)}, kinds={"foreign_keys": INT})]
                          if val is None else [])
        if name == "foreign_key_check":
            def lazy():
                out = []
                for term, desc in self.fk_violations():
                    if E().decide(term):
                        out.append(RowView(None, {"table": Z(desc)},
                                           {"table": z3.BoolVal(False)}, kinds={"table": STR}))
                return out
            return Cursor(self, None, lazy=lazy)
        # other pragmas are recorded (C09 compares the list) and have no modelled effect
        return Cursor(self, [])

    def fk_violations(self, tables=None):
        """[(term, description)]: child row present with non-null key and no parent"""
        tables = tables or {t: tb.rows for t, tb in self.tables.items()}
        out = []
        for t, tb in self.tables.items():
            for (c, pt, pc) in tb.refs:
                if pt not in self.tables:
                    continue
                for r in tables[t]:
                    parent = [z3.And(pr.p, z3.Not(pr.n[pc]), pr.v[pc] == r.v[c]) for pr in tables[pt]]
                    ok = z3.Or(*parent) if parent else z3.BoolVal(False)
                    out.append((z3.simplify(z3.And(r.p, z3.Not(r.n[c]), z3.Not(ok))), "%s.%s" % (t, c)))
        return out

    def _compound(self, st, params):
        """SELECT ... UNION [ALL] SELECT ...: arms evaluated in order; plain UNION removes duplicates
        (and, like SQLite, hands them back sorted by the first column)"""
        _, arms, kinds = st
        # parameters are numbered across the whole statement
        cursors = [self._select(a, params) for a in arms]
        store = self

        def all_rows():
            out = []
            first_names = None
            for cur in cursors:
                rows = cur.fetchall()
                for r in rows:
                    names = list(r)
                    if first_names is None:
                        first_names = names
                    if len(names) != len(first_names):
                        raise sqlite3.OperationalError("SELECTs to the left and right of UNION do not have the same number of result columns")
                    out.append(r if names == first_names else _renamed(r, first_names))
            if any(k == "distinct" for k in kinds):
                if first_names is None or len(first_names) != 1:
                    if out:
                        raise Unsupported("UNION (distinct) over more than one column")
                    return out
                c = first_names[0]
                res, seen = [], []
                for v in out:
                    x = v[c]
                    dup = False
                    for y in seen:
                        if x is None or y is None:
                            dup = dup or (x is None and y is None)
                            continue
                        e_ = (x == y)
                        if e_ is True or (e_ is not False and bool(e_)):
                            dup = True
                            break
                    if not dup:
                        seen.append(x)
                        res.append(v)
                out = sort_views(res, c, False)
            return out
        return Cursor(self, None, lazy=all_rows)

    def _select(self, st, params):
        _, what, table, where, order, limit = st
        tb = self._table(table)
        if what[0] == "cols":
            for c in what[1]:
                self._need_col(tb, c)
        if what[0] == "distinct":
            self._need_col(tb, what[1])
        if order:
            self._need_col(tb, order[0])
        ms = self._match(tb, where, params)
        store = self

        if what[0] == "count":
            n = z3.Sum(*[z3.If(m, 1, 0) for m in ms]) if ms else z3.IntVal(0)
            return Cursor(self, [RowView(tb, {what[1]: z3.simplify(n)}, {what[1]: z3.BoolVal(False)},
                                         kinds={what[1]: INT})])

        names = tb.colnames if what[0] == "star" else ([what[1]] if what[0] == "distinct" else what[1])

        def view(r):
            return RowView(tb, {c: r.v[c] for c in names}, {c: r.n[c] for c in names}, names)

        def all_rows():
            out = []
            for r, m in zip(tb.rows, ms):
                if E().decide(m):
                    out.append(view(r))
            if what[0] == "distinct":
                seen, res = [], []
                c = what[1]
                for v in out:
                    x = v[c]
                    dup = False
                    for y in seen:
                        if x is None or y is None:
                            if x is None and y is None:
                                dup = True
                                break
                            continue
                        e = (x == y)
                        if e is True or (e is not False and bool(e)):
                            dup = True
                            break
                    if not dup:
                        seen.append(x)
                        res.append(v)
                out = res
            if order:
                oc, desc = order
                out = sort_views(out, oc, desc)
            if limit is not None:
                out = out[:limit]
            return out

        def one():
            # one decision: does any slot match?  then an ite-merged row (first matching slot)
            if order or what[0] == "distinct" or (limit is not None and limit < 1):
                rows = all_rows()
                return rows[0] if rows else None
            if not ms or not E().decide(z3.Or(*ms)):
                return None
            vals, nulls = {}, {}
            ipk = [c for c in tb.pk if tb.sort[c] == INT]
            sel = ms
            if len(ipk) == 1 and len(tb.rows) > 1:
                # SQLite scans such a table in primary-key order: of several matches the smallest key wins
                k = ipk[0]
                sel = [z3.And(m, *[z3.Implies(m2, r.v[k] <= r2.v[k]) for r2, m2 in zip(tb.rows, ms) if r2 is not r])
                       for r, m in zip(tb.rows, ms)]
            for c in names:
                z, nz = tb.rows[-1].v[c], tb.rows[-1].n[c]
                for r, m in list(zip(tb.rows, sel))[-2::-1]:
                    z = z3.If(m, r.v[c], z)
                    nz = z3.If(m, r.n[c], nz)
                vals[c], nulls[c] = z3.simplify(z), z3.simplify(nz)
            return RowView(tb, vals, nulls, names)

        all_rows.one = one
        return Cursor(self, None, lazy=all_rows)

    def _insert(self, st, params):
        _, table, cols, vals = st
        tb = self._table(table)
        given = {}
        for c, v in zip(cols, vals):
            self._need_col(tb, c)
            given[c] = self._val(v, params)
        rv, rn = {}, {}
        rid = None
        for c in tb.cols:
            name, sort = c["name"], c["sort"]
            x = given.get(name)
            if x is None and c["auto"]:
                x = (tb.next_id, INT)
            if x is None and c["pk"] and sort == INT:
                x = (tb.next_id, INT)     # INTEGER PRIMARY KEY aliases rowid
            if x is None:
                rn[name] = z3.BoolVal(True)
                rv[name] = default_term(sort)
            elif len(x) == 3:
                rn[name] = x[2]
                rv[name] = z3.simplify(coerce(x[:2], sort, "%s.%s" % (table, name)))
            else:
                rn[name] = z3.BoolVal(False)
                rv[name] = z3.simplify(coerce(x, sort, "%s.%s" % (table, name)))
        for c in tb.cols:
            if c["auto"] or (c["pk"] and c["sort"] == INT):
                rid = W(rv[c["name"]], INT)
                tb.next_id = z3.simplify(z3.If(rv[c["name"]] >= tb.next_id, rv[c["name"]] + 1, tb.next_id))
        # PRIMARY KEY uniqueness
        if tb.pk:
            clash = [z3.And(r.p, *[z3.And(z3.Not(r.n[c]), z3.Not(rn[c]), r.v[c] == rv[c]) for c in tb.pk])
                     for r in tb.rows]
            if clash and E().decide(z3.Or(*clash)):
                raise sqlite3.IntegrityError("UNIQUE constraint failed: %s.%s" % (table, ",".join(tb.pk)))
        # immediate FOREIGN KEY check (child side)
        if self.foreign_keys:
            for (c, pt, pc) in tb.refs:
                if pt not in self.tables:
                    continue
                ptb = self.tables[pt]
                ex = [z3.And(pr.p, z3.Not(pr.n[pc]), pr.v[pc] == rv[c]) for pr in ptb.rows]
                ok = z3.Or(rn[c], *ex)
                if not E().decide(ok):
                    raise sqlite3.IntegrityError("FOREIGN KEY constraint failed")
        tb.rows.append(Row(z3.BoolVal(True), rv, rn))
        self._changed([z3.BoolVal(True)])
        cur = Cursor(self, [], lastrowid=rid)
        cur.rowcount = 1
        return cur

    def _update(self, st, params):
        _, table, sets, where = st
        tb = self._table(table)
        keycols = set(tb.pk) | {c for (c, _, _) in tb.refs}
        for t2 in self.tables.values():
            for (c, pt, pc) in t2.refs:
                if pt == table:
                    keycols.add(pc)
        new = []
        for c, v in sets:
            self._need_col(tb, c)
            if c in keycols:
                raise Unsupported("UPDATE of key column %s.%s" % (table, c))
            new.append((c, self._val(v, params)))
        ms = self._match(tb, where, params)
        for r, m in zip(tb.rows, ms):
            for c, x in new:
                if x is None:
                    r.n[c] = z3.simplify(z3.If(m, z3.BoolVal(True), r.n[c]))
                elif len(x) == 3:
                    r.n[c] = z3.simplify(z3.If(m, x[2], r.n[c]))
                    r.v[c] = z3.simplify(z3.If(m, coerce(x[:2], tb.sort[c], "%s.%s" % (table, c)), r.v[c]))
                else:
                    r.n[c] = z3.simplify(z3.If(m, z3.BoolVal(False), r.n[c]))
                    r.v[c] = z3.simplify(z3.If(m, coerce(x, tb.sort[c], "%s.%s" % (table, c)), r.v[c]))
        self._changed(ms)
        cur = Cursor(self, [])
        cur.rowcount = W(z3.simplify(z3.Sum(*[z3.If(m, 1, 0) for m in ms]) if ms else z3.IntVal(0)), INT)
        return cur

    def _changed(self, ms):
        n = z3.Sum(*[z3.If(m, 1, 0) for m in ms]) if ms else z3.IntVal(0)
        self.__dict__["total_changes"] = z3.simplify(object.__getattribute__(self, "total_changes") + n)

    def _delete(self, st, params):
        _, table, where = st
        tb = self._table(table)
        ms = self._match(tb, where, params)
        if self.foreign_keys:
            viol = []
            for ct, ctb in self.tables.items():
                for (c, pt, pc) in ctb.refs:
                    if pt != table:
                        continue
                    for r, m in zip(tb.rows, ms):
                        for cr in ctb.rows:
                            # a child that is itself deleted by this very statement does not count
                            gone = z3.BoolVal(False)
                            if ct == table:
                                gone = ms[ctb.rows.index(cr)]
                            viol.append(z3.And(m, z3.Not(r.n[pc]), cr.p, z3.Not(gone),
                                               z3.Not(cr.n[c]), cr.v[c] == r.v[pc]))
            if viol and E().decide(z3.Or(*viol)):
                raise sqlite3.IntegrityError("FOREIGN KEY constraint failed")
        for r, m in zip(tb.rows, ms):
            r.p = z3.simplify(z3.And(r.p, z3.Not(m)))
        self._changed(ms)
        cur = Cursor(self, [])
        cur.rowcount = W(z3.simplify(z3.Sum(*[z3.If(m, 1, 0) for m in ms]) if ms else z3.IntVal(0)), INT)
        return cur

    # ---- harness-side construction ----
    def add_row(self, table, present, **vals):
        """pre-state slot (bypasses constraints; the harness assumes INV separately)"""
        tb = self._table(table)
        rv, rn = {}, {}
        for c in tb.cols:
            name, sort = c["name"], c["sort"]
            x = vals.get(name)
            if isinstance(x, tuple) and len(x) == 2 and x[0] == "nullable":
                # ("nullable", (nullbit, value))
                rn[name] = x[1][0]
                rv[name] = coerce(zk(x[1][1]), sort, name)
            elif x is None:
                rn[name] = z3.BoolVal(True)
                rv[name] = default_term(sort)
            else:
                rn[name] = z3.BoolVal(False)
                rv[name] = z3.simplify(coerce(zk(x), sort, "%s.%s" % (table, name)))
        row = Row(present if not isinstance(present, bool) else z3.BoolVal(present), rv, rn)
        tb.rows.append(row)
        return row

    def seal(self):
        """declare the constructed rows to be the committed content"""
        self.in_tx = False
        self.dirty = False
        self.committed = Snapshot(self)
        self.commit_log = []
        self.stmt_log = []

    def snapshot(self):
        return Snapshot(self)


def _renamed(view, names):
    """a UNION arm's row under the column names of the first arm"""
    old = list(view)
    return RowView(view._t, {n: view._v[o] for n, o in zip(names, old)}, {n: view._n[o] for n, o in zip(names, old)},
                   list(names), {n: view._k.get(o) for n, o in zip(names, old)})


def default_term(sort):
    if sort == INT:
        return z3.IntVal(0)
    return z3.RealVal(0)


def coerce_cmp(val, sort):
    """a bound (term, kind) compared with a column of kind `sort`; None = different storage class"""
    term, kind = val
    if kind == sort or {kind, sort} == {INT, REAL}:
        return term
    return None


def sort_views(views, col, desc):
    """insertion sort with symbolic comparisons (each comparison is a decision); NULLs first"""
    out = []
    for v in views:
        x = v[col]
        i = len(out)
        while i > 0:
            y = out[i - 1][col]
            if y is None:
                break
            if x is None:
                i -= 1
                continue
            lt = (x < y)
            if lt is True or (lt is not False and bool(lt)):
                i -= 1
            else:
                break
        out.insert(i, v)
    if desc:
        out.reverse()
    return out
