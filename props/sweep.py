"""Expiry sweep obligations (C12, C13, parts of C15): the real expire() closure obtained from the
real makeService, fired once on an arbitrary INV pre-state with connections in arbitrary
subscription states."""
import z3, sqlite3
from sx.engine import E, SBool, SStr, SNum, Z, Inconclusive, Unsupported
from sx.run import obligation, PathResult
from sx.world import inv_db_clauses, slot_unchanged, new_rows, count, CHANNEL_TABLES, NullLog
from .common import *
from .steps import bounds, finish, touched, subscription_intact, usage_cfg
import wormhole_mailbox_server.server_tap as TAP


def sweep_bounds(tier):
    if tier == "thorough":
        # K=3 did not finish within 29 minutes on 16 cores: the thorough sweep widens the bundles instead
        return dict(K=2, S=2, M=2)
    return dict(K=2, S=2, M=1)


@obligation("sweep.step")
def sweep_step(e, tier="quick", usage=False, others=None, crowd=0, relaxed=False):
    bd = sweep_bounds(tier)
    x = build(e, crowd=crowd, **usage_cfg(e, usage), acting=["none"], relaxed=relaxed,
              others=others or ["none", "sub0s0", "sub1s0", "idle0", "sub0s0+sub1s0"], **bd)
    w, pre = x.w, x.pre
    E_ = TAP.CHANNEL_EXPIRATION_TIME
    P_ = TAP.EXPIRATION_CHECK_PERIOD
    ex = w.expire()
    errors = list(w.sweep_errors)
    now = w.clock.values[0]
    post = w.snapshot()
    A = {}
    A["C13.no_exception"] = (ex is None)
    A["C13.no_internal_error"] = (len(errors) == 0)
    A["C13.period"] = (w.period == P_ and E_ > P_)
    A["C12.period"] = A["C13.period"]
    prot, swept = [], []
    for b in w.bundles:
        subscribed = any(ob is b for (_, ob, _) in x.subs)
        recent = b.updated.z > now - z3.RealVal(E_)
        if subscribed:
            # kept alive by its subscriber: only `updated` is refreshed
            prot.append(Implies(b.p, And(bundle_unchanged(b, pre, post, ignore_updated=True),
                                         rows_of(b, post, "mailboxes").v["updated"] == now)))
        else:
            prot.append(Implies(And(b.p, recent), bundle_unchanged(b, pre, post)))
            swept.append(Implies(And(b.p, z3.Not(recent)), bundle_absent(b, post)))
        prot.append(Implies(z3.Not(b.p), bundle_absent(b, post)))
    A["C12.protected"] = And(*prot)
    A["C13.swept"] = And(*swept)
    # the fate of a bundle is a function of its own `updated` and its own subscribers only
    A["C06.sweep_per_bundle"] = And(A["C12.protected"], A["C13.swept"])
    A["C13.no_new_rows"] = no_new_rows(pre, post)
    A["C12.no_new_rows"] = A["C13.no_new_rows"]
    # subscribers stay subscribed
    A["C12.subscriptions"] = all(subscription_intact(x, oc, ob) for (oc, ob, _) in x.subs)
    A["C02.subscriptions"] = A["C12.subscriptions"]
    A["C02.no_frames"] = all(len(step_frames(o)) == 0 for o in w.conns)
    # if nobody is connected and everything is old the store is empty afterwards
    if not w.conns:
        all_old = And(*[Implies(b.p, b.updated.z <= now - z3.RealVal(E_)) for b in w.bundles])
        empty = And(*[z3.Not(r.p) for t in CHANNEL_TABLES for r in post.tables[t]])
        A["C13.empty"] = Implies(all_old, empty)
    usage_asserts(A, x, pre, post, now, T, w.cfg["blur"])
    if w.usage is not None:
        cur = w.usage.snapshot().tables["current"]
        live = [r for r in cur]
        n_listening = sum(1 for c in w.conns if c._listening)
        ok = count([r.p for r in live]) == 1
        one = Or(*[And(r.p, z3.Not(r.n["connections_websocket"]), r.v["connections_websocket"] == n_listening,
                       z3.Not(r.n["updated"]), r.v["updated"] == now) for r in live])
        A["C15.current"] = And(ok, one)
    A["C01.msg_frame"] = frame_messages(w, pre, post)
    A["C03.np_frame"] = frame_nameplate_rows(w, pre, post)
    A["C05.side_frame"] = frame_side_rows(w, pre, post)
    A["C07.claims"] = claims_frame(w, pre, post)
    A["C01.no_new_msg"] = len(new_rows(pre, post, "messages")) == 0
    x.a_shape = "none"
    x.c = w.conns[0] if w.conns else None
    if relaxed:
        # C10 (2): from every crash-shaped state a restarted server's sweep works and cleans up
        A["C10.sweep_ok"] = And(A["C13.no_exception"], A["C13.no_internal_error"])
        A["C10.sweep_cleans"] = And(A["C13.swept"], A.get("C13.empty", T))
    r = finish(x, A, info=dict(frames=[], errors=[repr(er)[:80] for er in errors]), inv=not relaxed)
    return r


@obligation("sweep.fault")
def sweep_fault(e, tier="quick", usage=False, k=0):
    """the k-th store access of a sweep fails with a transient OperationalError: nothing escapes the
    timer callback, and the next sweep does the whole job"""
    bd = sweep_bounds(tier)
    x = build(e, **usage_cfg(e, usage), acting=["none"], others=["none", "sub0s0"], **bd)
    w, pre = x.w, x.pre
    E_ = TAP.CHANNEL_EXPIRATION_TIME
    base = w.db.n_exec

    def fault(store, idx, sql):
        if idx - base == k:
            raise sqlite3.OperationalError("database is locked")
    w.db.fault = fault
    w.script.append(("fault", "channel", k))
    ex1 = w.expire()
    w.db.fault = None
    w.script.append(("fault", "channel", None))
    mid_snap = w.snapshot()
    ex2 = w.expire()
    now2 = w.clock.values[-1] if usage is False else None
    post = w.snapshot()
    A = {}
    A["C13.fault_no_escape"] = (ex1 is None and ex2 is None)
    # second sweep: `now` is its first clock reading
    nows = [v for v in w.clock.values]
    # the second expire()'s time.time() call: find it as the first clock value after the first sweep's
    now = nows[1] if len(nows) > 1 else nows[0]
    swept = []
    for b in w.bundles:
        subscribed = any(ob is b for (_, ob, _) in x.subs)
        if not subscribed:
            swept.append(Implies(And(b.p, b.updated.z <= nows[0] - z3.RealVal(E_)), bundle_absent(b, post)))
    A["C13.fault_recovers"] = And(*swept)
    x.a_shape = "none"
    x.c = None
    return finish(x, A, info=dict(frames=[]), inv=False, mem=False)
