"""SX engine: decision-tree exploration by re-execution, z3 proxies for str / number / bool.

A *path* is the list of outcomes of every non-constant truth test taken on a symbolic value
(``decide``) or harness-level choice (``choose``).  ``Engine.run_prefix`` executes the obligation
function once, following a given prefix and then the cached model; every new decision costs one
solver call for the *other* side, and the other side is queued when feasible.  An obligation is
exhausted when the queue is empty: every feasible path has been executed.  Nothing is sampled.
"""
import time, re, sys, os
from fractions import Fraction
import z3


class Abort(BaseException):
    """current path is infeasible (an assumption contradicted the path condition)"""


class Inconclusive(BaseException):
    """solver said unknown / construct outside the supported fragment: never a pass, never a fail.
    BaseException so that the code under test (``except Exception``) cannot swallow it."""


class Unsupported(Inconclusive):
    pass


CHECK_TIMEOUT_MS = int(os.environ.get("SX_CHECK_TIMEOUT_MS", "120000"))


# symbolic-by-symbolic multiplication / floor division (the usage blur `B * (t // B)`) are kept as
# uninterpreted functions during exploration and validity checks (a sound over-approximation that
# keeps every query linear); their real semantics are added as ground axioms only when a
# counterexample candidate has to be confirmed or refuted (Engine.check_cex).
UMUL = z3.Function("umul", z3.RealSort(), z3.RealSort(), z3.RealSort())
UFDIV = z3.Function("ufdiv", z3.RealSort(), z3.RealSort(), z3.RealSort())


def _is_numeral(t):
    t = z3.simplify(t)
    return z3.is_rational_value(t) or z3.is_int_value(t)


def _real(t):
    return z3.ToReal(t) if z3.is_int(t) else t


class Engine:
    cur = None
    exact_arith = False       # kernels that are about the arithmetic itself switch this on

    def __init__(self):
        self.stats = dict(paths=0, infeasible=0, decisions=0, solver_queries=0, solver_s=0.0,
                          choices=0)

    # ---- solver plumbing -------------------------------------------------------------
    def _check(self, *extra):
        t = time.time()
        self.solver.push()
        if extra:
            self.solver.add(*extra)
        r = self.solver.check()
        m = self.solver.model() if r == z3.sat else None
        reason = self.solver.reason_unknown() if r == z3.unknown else None
        self.solver.pop()
        self.stats["solver_queries"] += 1
        self.stats["solver_s"] += time.time() - t
        if r == z3.unknown:
            raise Inconclusive("solver returned unknown (%s)" % reason)
        return m

    def check_sat(self, *extra):
        """model of pc ∧ extra, or None when unsat"""
        return self._check(*extra)

    def check_cex(self, *extra):
        """like check_sat, but a model is only returned if it survives the real semantics of the
        abstracted arithmetic (otherwise the candidate was an artefact of the abstraction)"""
        m = self._check(*extra)
        if m is None or not self.uf_axioms:
            return m
        ax = list(self.uf_axioms)
        # first try with the nonlinear factors pinned to the candidate's values (linear query)
        pins = [p == m.eval(p, model_completion=True) for p in self.uf_pins]
        try:
            m2 = self._check(*(list(extra) + ax + pins))
        except Inconclusive:
            m2 = None
        if m2 is not None:
            return m2
        return self._check(*(list(extra) + ax))

    def real_model(self):
        """a model of the path condition that also respects the real semantics of the abstracted
        arithmetic (for witnesses that are replayed on the real code)"""
        if not self.uf_axioms:
            return self.model
        ax = list(self.uf_axioms)
        pins = [p == self.model.eval(p, model_completion=True) for p in self.uf_pins]
        try:
            m = self._check(*(ax + pins))
        except Inconclusive:
            m = None
        if m is None:
            try:
                m = self._check(*ax)
            except Inconclusive:
                m = None
        return m

    def uf_mul(self, a, b):
        a, b = _real(a), _real(b)
        r = UMUL(a, b)
        self.uf_axioms.append(r == a * b)
        self.uf_pins.append(a)
        return r

    def uf_fdiv(self, a, b):
        a, b = _real(a), _real(b)
        q = UFDIV(a, b)
        self.uf_axioms.append(z3.Implies(b > 0, z3.And(z3.IsInt(q), q * b <= a, a < (q + 1) * b)))
        self.uf_pins.append(b)
        return q

    def begin(self, prefix):
        self.prefix = list(prefix)
        self.trace = []
        self.solver = z3.Solver()
        self.solver.set("timeout", CHECK_TIMEOUT_MS)
        self.fresh = {}
        self.uf_axioms = []
        self.uf_pins = []
        self.hash_used = False
        self.hashed = []
        self.str_tokens = {}
        self.built = {}
        self.str_vars = set()
        self.solver.check()
        self.model = self.solver.model()
        self.spawned = []
        self.pc = []
        self.notes = []
        Engine.cur = self

    def _holds_in_model(self, cond):
        return z3.is_true(self.model.eval(cond, model_completion=True))

    def decide(self, cond):
        if isinstance(cond, bool):
            return cond
        cond = z3.simplify(cond)
        if z3.is_true(cond):
            return True
        if z3.is_false(cond):
            return False
        self.stats["decisions"] += 1
        i = len(self.trace)
        if i < len(self.prefix):
            d = bool(self.prefix[i])
        else:
            if self._holds_in_model(cond):
                d = True
                if self._check(z3.Not(cond)) is not None:
                    self.spawned.append(self.trace + [0])
            else:
                d = False
                if self._check(cond) is not None:
                    self.spawned.append(self.trace + [1])
        self.trace.append(1 if d else 0)
        c = cond if d else z3.Not(cond)
        self.solver.add(c)
        self.pc.append(c)
        if self._holds_in_model(cond) != d:
            self.model = self._check()
            if self.model is None:
                raise Abort()
        return d

    def choose(self, n, label=""):
        """harness-level nondeterminism: all n alternatives are explored (no solver involved)"""
        if n <= 1:
            return 0
        self.stats["choices"] += 1
        i = len(self.trace)
        if i < len(self.prefix):
            d = int(self.prefix[i])
        else:
            d = 0
            for k in range(n - 1, 0, -1):
                self.spawned.append(self.trace + [k])
        self.trace.append(d)
        return d

    # ---- function summaries: explore a pure call exhaustively here and merge its results --------
    def merge_call(self, fn, make_args):
        """run fn(*make_args()) on every feasible path *from the current path condition*, and return
        one ite-merged result instead of forking the caller (sound for side-effect-free functions).
        Sub-paths on which fn raises become one decision of the caller."""
        outer = (self.trace, self.prefix, self.spawned, self.model)
        base_pc = len(self.pc)
        results, raising = [], []
        work = [[]]
        try:
            while work:
                sub = work.pop()
                self.solver.push()
                self.trace, self.prefix, self.spawned = [], sub, []
                self.model = outer[3]
                try:
                    try:
                        val = fn(*make_args())
                        kind = "ret"
                    except (Abort,):
                        kind = "abort"
                        val = None
                    except Inconclusive:
                        raise
                    except Exception as ex:
                        kind, val = "raise", ex
                    cond = z3.And(*self.pc[base_pc:]) if len(self.pc) > base_pc else z3.BoolVal(True)
                    work.extend(self.spawned)
                    if kind == "ret":
                        results.append((cond, val))
                    elif kind == "raise":
                        raising.append((cond, val))
                    self.stats["merged_subpaths"] = self.stats.get("merged_subpaths", 0) + 1
                finally:
                    del self.pc[base_pc:]
                    self.solver.pop()
        finally:
            self.trace, self.prefix, self.spawned, self.model = outer
        if raising:
            if not results or self.decide(z3.Or(*[c for c, _ in raising])):
                raise raising[0][1]
        if not results:
            raise Abort()
        return merge_values(results)

    def assume(self, cond):
        if isinstance(cond, SBool):
            cond = cond.z
        if isinstance(cond, bool):
            if not cond:
                raise Abort()
            return
        cond = z3.simplify(cond)
        if z3.is_true(cond):
            return
        self.solver.add(cond)
        self.pc.append(cond)
        if not self._holds_in_model(cond):
            self.model = self._check()
            if self.model is None:
                raise Abort()

    def name(self, base):
        n = self.fresh.get(base, 0)
        self.fresh[base] = n + 1
        return "%s#%d" % (base, n)

    # ---- fresh symbols ---------------------------------------------------------------
    def sym_str(self, base):
        n = self.name(base)
        z = z3.Real(n)
        self.str_vars.add(n)
        self.assume(z >= 0)       # "" is the least string
        return SStr(z)

    def sym_real(self, base):
        return SNum(z3.Real(self.name(base)))

    def sym_int(self, base):
        return SNum(z3.Int(self.name(base)))

    def sym_bool(self, base):
        return z3.Bool(self.name(base))

    # ---- running one path ------------------------------------------------------------
    def run_prefix(self, fn, prefix):
        """returns (result | None when infeasible, spawned prefixes)"""
        self.begin(prefix)
        try:
            res = fn(self)
        except Abort:
            self.stats["infeasible"] += 1
            return None, self.spawned
        self.stats["paths"] += 1
        return res, self.spawned


def E():
    return Engine.cur


# =====================================================================================
# proxies
# =====================================================================================
class SBool:
    __slots__ = ("z",)

    def __init__(self, z):
        self.z = z if not isinstance(z, bool) else z3.BoolVal(z)

    def __bool__(self):
        return E().decide(self.z)

    def __eq__(self, o):
        return SBool(self.z == tobool(o))

    def __ne__(self, o):
        return SBool(self.z != tobool(o))

    def __hash__(self):
        raise Unsupported("hash of symbolic bool")

    def __repr__(self):
        return "<SBool>"


def tobool(x):
    if isinstance(x, SBool):
        return x.z
    if isinstance(x, z3.BoolRef):
        return x
    if isinstance(x, SNum):
        return x.z != 0
    if isinstance(x, SStr):
        return x.z != 0
    return z3.BoolVal(bool(x))


def zs(o):
    if isinstance(o, SStr):
        return o.z
    if isinstance(o, str):
        if MARK in o:
            return built_string(o)
        return z3.RealVal(str_image(o))
    raise Unsupported("string expected, got %r" % type(o))


_TOKEN = None


def built_string(o):
    """a concrete str assembled by the code from symbolic pieces (join, %-formatting, +): every proxy
    carries a unique token as its content, so a string that consists of exactly one token IS that
    symbolic string; anything longer is an opaque fresh string (sound over-approximation: nothing is
    known about a concatenation in the order embedding) and the path is marked like a hashed one"""
    global _TOKEN
    import re as _re
    if _TOKEN is None:
        _TOKEN = _re.compile(_re.escape(MARK) + r"(\d+)" + _re.escape(MARK))
    e = E()
    m = _TOKEN.fullmatch(o)
    if m is not None and int(m.group(1)) in e.str_tokens:
        return e.str_tokens[int(m.group(1))]
    if o not in e.built:
        n = e.name("built")
        z = z3.Real(n)
        e.str_vars.add(n)
        e.assume(z >= 0)
        e.built[o] = z
        e.hash_used = True       # passes on this path are not trusted; counterexamples are replayed
    return e.built[o]


# ---------------------------------------------------------------------------------------------
# Strings are modelled as points of a dense total order with least element: the code under test
# only ever compares client strings for equality / order (sorted) and against constants, so a
# string s is represented by the rational  img(s) = sum (ord(s[i])+1) / B^(i+1),  B = 0x110001,
# which is strictly monotone for Python's (code point, prefix-first) string order.  Every other
# string operation on a proxy raises Unsupported.  Models are turned back into strings by
# Decoder (order- and constant-preserving).
# ---------------------------------------------------------------------------------------------
_B = 0x110001
STR_CONSTS = {}          # image (Fraction) -> python str, for every constant lifted so far


def str_image(s):
    f = Fraction(0)
    p = Fraction(1, _B)
    for ch in s:
        f += (ord(ch) + 1) * p
        p /= _B
    STR_CONSTS.setdefault(f, str(s))
    return f


def str_between(a, b):
    """a python string strictly between a and b (b None = no upper bound); None if adjacent"""
    if b is None:
        return a + "~"
    if not b.startswith(a):
        return a + "!"
    r = b[len(a):]
    if ord(r[0]) > ord("!"):
        return a + "!"
    if ord(r[0]) > 1:
        return a + "\x01"
    if len(r) > 1:
        return a + r[0]
    if r == "\x01":
        return a + "\x00"
    return None


str_image("")


class Decoder:
    """model -> python values; string-kinded reals are mapped back to strings such that all order
    and equality relations among them and the lifted constants are preserved.  Two passes: a
    collecting pass records every string value that will be needed, then `plan_strings` assigns all of
    them at once (assigning one at a time can squeeze later values into gaps with no string left)"""

    def __init__(self, model, collecting=False, plan=None):
        self.model = model
        self.collecting = collecting
        self.seen = set()
        self.assigned = dict(STR_CONSTS)       # Fraction -> str
        if plan:
            self.assigned.update(plan)
        self.counter = 0

    def num(self, term):
        return model_value(self.model, term)

    def string(self, term):
        v = Fraction(model_value(self.model, term))
        if self.collecting:
            self.seen.add(v)
            return self.assigned.get(v, "?")
        if v in self.assigned:
            return self.assigned[v]
        one = plan_strings({v}, self.assigned)
        self.assigned.update(one)
        return self.assigned[v]


def plan_strings(values, assigned=None):
    """{Fraction: str} for every value that is not a lifted constant: per gap between two neighbouring
    known strings the needed values get increasing readable names"""
    import bisect
    known = dict(STR_CONSTS if assigned is None else assigned)
    todo = sorted(v for v in set(values) if v not in known)
    keys = sorted(known)
    out = {}
    gaps = {}
    for v in todo:
        i = bisect.bisect_left(keys, v)
        if i == 0:
            raise Inconclusive("model places a string below the empty string")
        gaps.setdefault(i, []).append(v)
    for i, vs in gaps.items():
        lo = known[keys[i - 1]]
        hi = known[keys[i]] if i < len(keys) else None
        k = len(vs)
        width = max(1, len(str(k)))
        cands = [lo + ("-" if lo else "v") + str(n).zfill(width) for n in range(k)]
        ok = all(c > lo and (hi is None or c < hi) for c in cands) and cands == sorted(cands) and len(set(cands)) == k
        if not ok:
            # find a base strictly inside the gap under which numbered names still fit below hi
            cands, base_lo = None, lo
            for _ in range(6):
                base = str_between(base_lo, hi)
                if base is None:
                    break
                trial = [base + str(n).zfill(width) for n in range(k)]
                if all(c > lo and (hi is None or c < hi) for c in trial):
                    cands = trial
                    break
                base_lo = base
            if cands is None:
                raise Inconclusive("model needs %d strings strictly between %r and %r" % (k, lo, hi))
        for v, c in zip(vs, cands):
            out[v] = c
    return out


def two_pass(model, fn):
    """run fn(decoder) twice: once collecting the string values it needs, once with a consistent plan"""
    d0 = Decoder(model, collecting=True)
    fn(d0)
    return fn(Decoder(model, plan=plan_strings(d0.seen)))


MARK = "\ufff0SYM\ufff0"     # content of a formatted proxy: fine in log lines, never allowed as data


class SStr(str):
    """symbolic str.  Subclasses str so that the code's own isinstance(x, type("")) assertions hold."""

    def __new__(cls, z):
        e = Engine.cur
        if e is not None and hasattr(e, "str_tokens"):
            k = len(e.str_tokens)
            e.str_tokens[k] = z
            o = str.__new__(cls, "%s%d%s" % (MARK, k, MARK))
        else:
            o = str.__new__(cls, MARK)
        o.z = z
        return o

    def __eq__(self, o):
        if isinstance(o, str):
            return SBool(self.z == zs(o))
        return False

    def __ne__(self, o):
        if isinstance(o, str):
            return SBool(self.z != zs(o))
        return True

    def __lt__(self, o):
        return SBool(self.z < zs(o))

    def __le__(self, o):
        return SBool(self.z <= zs(o))

    def __gt__(self, o):
        return SBool(zs(o) < self.z)

    def __ge__(self, o):
        return SBool(zs(o) <= self.z)

    def __hash__(self):
        # A native dict/set keyed by client data: every symbolic string hashes alike, so the
        # container falls back to == (decisions), which is exact among symbolic keys but would miss
        # an equal *concrete* key.  The path is therefore marked: a counterexample found on it is
        # still replayed on the real code (and believed only then), a pass is reported inconclusive.
        e = E()
        e.hash_used = True
        e.hashed.append(self.z)
        return 0x5EED

    def __bool__(self):
        return E().decide(self.z != 0)

    def __len__(self):
        raise Unsupported("len of symbolic str")

    def __str__(self):
        return self

    def __repr__(self):
        return MARK

    def __format__(self, spec):
        return MARK

    def __mod__(self, o):
        raise Unsupported("%-formatting with a symbolic template")

    def __add__(self, o):
        raise Unsupported("concatenation with a symbolic str")

    def __radd__(self, o):
        raise Unsupported("concatenation with a symbolic str")

    def __iter__(self):
        raise Unsupported("iteration over symbolic str")

    def __getitem__(self, i):
        raise Unsupported("indexing symbolic str")

    def __contains__(self, o):
        raise Unsupported("substring test on a symbolic str")

    def encode(self, *a, **k):
        raise Unsupported("encode of symbolic str")


def _block_str_api():
    """every other str method would silently work on the placeholder content: make them loud"""
    allowed = {"__new__", "__init__", "__class__", "__eq__", "__ne__", "__lt__", "__le__", "__gt__", "__ge__",
               "__hash__", "__bool__", "__len__", "__str__", "__repr__", "__format__", "__mod__", "__add__",
               "__radd__", "__iter__", "__getitem__", "__contains__", "encode", "__getattribute__",
               "__setattr__", "__delattr__", "__dir__", "__doc__", "__init_subclass__", "__subclasshook__",
               "__reduce__", "__reduce_ex__", "__sizeof__", "__getnewargs__", "__rmod__", "__getstate__"}

    def mk(name):
        def f(self, *a, **k):
            raise Unsupported("str.%s on a symbolic string" % name)
        f.__name__ = name
        return f
    for name in dir(str):
        if name in allowed:
            continue
        if callable(getattr(str, name)):
            setattr(SStr, name, mk(name))
    for name in ("__int__", "__float__", "__index__", "__complex__", "__bytes__", "__mul__", "__rmul__"):
        setattr(SStr, name, mk(name))


_block_str_api()


def _num_term(o, like):
    if isinstance(o, SNum):
        return o.z
    if isinstance(o, SBool):
        return z3.If(o.z, 1, 0)
    if isinstance(o, bool):
        o = int(o)
    if isinstance(o, int):
        return z3.IntVal(o)
    if isinstance(o, float):
        fr = Fraction(o)
        return z3.RealVal(fr)
    if isinstance(o, Fraction):
        return z3.RealVal(o)
    raise Unsupported("number expected, got %r" % type(o))


def _unify(a, b):
    if a.sort() == b.sort():
        return a, b
    if z3.is_int(a):
        a = z3.ToReal(a)
    if z3.is_int(b):
        b = z3.ToReal(b)
    return a, b


class _IntName(type):
    """stands in for the *name* `int` in the server modules' globals: `int(x)` on a symbolic number
    stays symbolic (the builtin must return a genuine int and would have to concretise), everything
    else is the builtin; isinstance / issubclass against the name keep working"""

    def __instancecheck__(cls, x):
        return isinstance(x, int)

    def __subclasscheck__(cls, c):
        return issubclass(c, int)

    def __call__(cls, *a, **k):
        if a and isinstance(a[0], SNum) and not k and len(a) == 1:
            z = a[0].z
            if z3.is_int(z):
                return a[0]
            # truncation toward zero
            return SNum(z3.If(z >= 0, z3.ToInt(z), -z3.ToInt(-z)))
        if a and isinstance(a[0], SStr):
            raise Unsupported("int() of a client string")
        return int(*a, **k)


class IntName(metaclass=_IntName):
    pass


class SNum:
    """symbolic number: z3 Int (ids, counters, blur interval) or Real (timestamps)."""
    __slots__ = ("z",)

    def __init__(self, z):
        self.z = z

    def _pair(self, o):
        return _unify(self.z, _num_term(o, self.z))

    def __eq__(self, o):
        if o is None or isinstance(o, str):
            return False
        a, b = self._pair(o)
        return SBool(a == b)

    def __ne__(self, o):
        if o is None or isinstance(o, str):
            return True
        a, b = self._pair(o)
        return SBool(a != b)

    def __lt__(self, o):
        a, b = self._pair(o)
        return SBool(a < b)

    def __le__(self, o):
        a, b = self._pair(o)
        return SBool(a <= b)

    def __gt__(self, o):
        a, b = self._pair(o)
        return SBool(a > b)

    def __ge__(self, o):
        a, b = self._pair(o)
        return SBool(a >= b)

    def __add__(self, o):
        a, b = self._pair(o)
        return SNum(a + b)

    __radd__ = __add__

    def __sub__(self, o):
        a, b = self._pair(o)
        return SNum(a - b)

    def __rsub__(self, o):
        a, b = self._pair(o)
        return SNum(b - a)

    def __mul__(self, o):
        a, b = self._pair(o)
        if not Engine.exact_arith and not _is_numeral(a) and not _is_numeral(b):
            return SNum(E().uf_mul(self.z, _num_term(o, self.z)))
        return SNum(a * b)

    __rmul__ = __mul__

    def __neg__(self):
        return SNum(-self.z)

    def __floordiv__(self, o):
        a, b = self._pair(o)
        # Python floor division, divisor assumed positive by the callers' contract (blur >= 1);
        # for Reals: floor(a/b) as an Int lifted back to Real (Python returns a float there)
        if not Engine.exact_arith and not _is_numeral(b):
            return SNum(E().uf_fdiv(self.z, _num_term(o, self.z)))
        if z3.is_int(a):
            return SNum(a / b)
        return SNum(z3.ToReal(z3.ToInt(a / b)))

    def __rfloordiv__(self, o):
        a, b = self._pair(o)
        if z3.is_int(a):
            return SNum(b / a)
        return SNum(z3.ToReal(z3.ToInt(b / a)))

    def __truediv__(self, o):
        a, b = self._pair(o)
        if z3.is_int(a):
            a, b = z3.ToReal(a), z3.ToReal(b)
        return SNum(a / b)

    def __mod__(self, o):
        # Python's a % b for b > 0:  a - b * floor(a / b)
        return self - (self // o) * o

    def __rmod__(self, o):
        a, b = self._pair(o)
        return SNum(b) % self

    def __round__(self, *a):
        # round(x) with no digits: nearest integer, ties to even (what float.__round__ does)
        if a and a[0] is not None:
            raise Unsupported("round(x, ndigits) of a symbolic number")
        z = self.z
        if z3.is_int(z):
            return self
        f = z3.ToInt(z + z3.RealVal("1/2"))
        tie = (z + z3.RealVal("1/2")) == z3.ToReal(f)
        return SNum(z3.If(z3.And(tie, f % 2 == 1), f - 1, f))

    def __trunc__(self):
        raise Unsupported("trunc() of a symbolic number")

    def __floor__(self):
        raise Unsupported("floor() of a symbolic number")

    def __ceil__(self):
        raise Unsupported("ceil() of a symbolic number")

    def __abs__(self):
        return SNum(z3.If(self.z >= 0, self.z, -self.z))

    def __pow__(self, o):
        raise Unsupported("power of a symbolic number")

    def __divmod__(self, o):
        q = self // o
        return q, self - q * o

    def __bool__(self):
        return E().decide(self.z != 0)

    def __hash__(self):
        raise Unsupported("hash of symbolic number")

    def __int__(self):
        raise Unsupported("int() of symbolic number")

    def __float__(self):
        raise Unsupported("float() of symbolic number")

    def __index__(self):
        raise Unsupported("symbolic number used as index")

    def __str__(self):
        return MARK

    __repr__ = __str__

    def __format__(self, spec):
        return MARK


class SOpt:
    """a value that is None on some merged sub-paths: (null: Bool term, value: proxy or python value)"""

    def __init__(self, null, value):
        self.null, self.value = null, value

    def __eq__(self, o):
        raise Unsupported("comparison of a merged optional value")

    __hash__ = None

    def concretise(self, dec):
        return None if dec.num(self.null) else conc(dec, self.value)


def merge_values(results):
    """[(cond, value)] with exhaustive conds -> one value"""
    vals = [v for _, v in results]
    first = vals[0]
    if all(v is first for v in vals):
        return first
    if all(v is None for v in vals):
        return None
    if any(v is None for v in vals):
        null = z3.Or(*[c for c, v in results if v is None])
        rest = [(c, v) for c, v in results if v is not None]
        return SOpt(z3.simplify(null), merge_values(rest))
    if all(isinstance(v, tuple) for v in vals) and len({len(v) for v in vals}) == 1:
        fields = [merge_values([(c, v[i]) for c, v in results]) for i in range(len(first))]
        if hasattr(first, "_fields"):
            return type(first)(*fields)
        return tuple(fields)
    if all(isinstance(v, str) for v in vals):
        z = zs(vals[-1])
        for c, v in results[-2::-1]:
            z = z3.If(c, zs(v), z)
        return W(z, "s")
    if all(isinstance(v, (bool, SBool)) for v in vals):
        z = tobool(vals[-1])
        for c, v in results[-2::-1]:
            z = z3.If(c, tobool(v), z)
        return W(z)
    if all(isinstance(v, (int, float, Fraction, SNum)) and not isinstance(v, bool) for v in vals):
        terms = [Z(v) for v in vals]
        if len({str(t.sort()) for t in terms}) > 1:
            terms = [z3.ToReal(t) if z3.is_int(t) else t for t in terms]
        z = terms[-1]
        for (c, _), t in list(zip(results, terms))[-2::-1]:
            z = z3.If(c, t, z)
        return W(z)
    raise Unsupported("cannot merge results of types %r" % sorted({type(v).__name__ for v in vals}))


# =====================================================================================
# containers with symbolic keys
# =====================================================================================
class SymDict:
    """association list with == probing: every lookup with a symbolic key is a chain of decisions"""

    def __init__(self, items=()):
        self.items_ = list(items)

    def _find(self, k):
        for i, (kk, v) in enumerate(self.items_):
            r = (kk == k)
            if r is True or (r is not False and bool(r)):
                return i
        return None

    def __contains__(self, k):
        return self._find(k) is not None

    def __getitem__(self, k):
        i = self._find(k)
        if i is None:
            raise KeyError(k)
        return self.items_[i][1]

    def get(self, k, d=None):
        i = self._find(k)
        return d if i is None else self.items_[i][1]

    def __setitem__(self, k, v):
        i = self._find(k)
        if i is None:
            self.items_.append((k, v))
        else:
            self.items_[i] = (self.items_[i][0], v)

    def setdefault(self, k, d=None):
        i = self._find(k)
        if i is None:
            self.items_.append((k, d))
            return d
        return self.items_[i][1]

    def pop(self, k, *d):
        i = self._find(k)
        if i is None:
            if d:
                return d[0]
            raise KeyError(k)
        return self.items_.pop(i)[1]

    def __delitem__(self, k):
        self.pop(k)

    def keys(self):
        return [k for k, v in self.items_]

    def values(self):
        return [v for k, v in self.items_]

    def items(self):
        return list(self.items_)

    def __iter__(self):
        return iter([k for k, v in self.items_])

    def __len__(self):
        return len(self.items_)

    def __bool__(self):
        return bool(self.items_)

    def clear(self):
        self.items_ = []

    def __eq__(self, o):
        raise Unsupported("comparison of registries")

    __hash__ = None


class SymSet:
    def __init__(self, it=()):
        self.items_ = []
        for x in it:
            self.add(x)

    def _has(self, x):
        for y in self.items_:
            r = (y == x)
            if r is True or (r is not False and bool(r)):
                return True
        return False

    def add(self, x):
        if not self._has(x):
            self.items_.append(x)

    def discard(self, x):
        for i, y in enumerate(self.items_):
            r = (y == x)
            if r is True or (r is not False and bool(r)):
                self.items_.pop(i)
                return

    def remove(self, x):
        n = len(self.items_)
        self.discard(x)
        if len(self.items_) == n:
            raise KeyError(x)

    def update(self, it):
        for x in it:
            self.add(x)

    def __contains__(self, x):
        return self._has(x)

    def __iter__(self):
        return iter(list(self.items_))

    def __len__(self):
        return len(self.items_)

    def __bool__(self):
        return bool(self.items_)

    def union(self, *others):
        s = SymSet(self.items_)
        for o in others:
            s.update(o)
        return s

    __or__ = union

    def __sub__(self, o):
        return SymSet([x for x in self.items_ if x not in o])

    def __and__(self, o):
        return SymSet([x for x in self.items_ if x in o])

    __hash__ = None


# =====================================================================================
# value <-> term helpers
# =====================================================================================
def Z(v):
    """python value or proxy -> z3 term"""
    if isinstance(v, SStr) or isinstance(v, SNum):
        return v.z
    if isinstance(v, SBool):
        return z3.If(v.z, z3.IntVal(1), z3.IntVal(0))
    if isinstance(v, z3.ExprRef):
        return v
    if isinstance(v, bool):
        return z3.IntVal(int(v))
    if isinstance(v, int):
        return z3.IntVal(v)
    if isinstance(v, float):
        return z3.RealVal(Fraction(v))
    if isinstance(v, Fraction):
        return z3.RealVal(v)
    if isinstance(v, str):
        return zs(v)
    raise Unsupported("cannot lift %r to a term" % type(v))


def kind_of(v):
    """'s' string, 'i' integer/boolean, 'r' real, None for None"""
    if v is None:
        return None
    if isinstance(v, SOpt):
        return kind_of(v.value)
    if isinstance(v, str):
        return "s"
    if isinstance(v, SNum):
        return "i" if z3.is_int(v.z) else "r"
    if isinstance(v, (SBool, bool, int)):
        return "i"
    if isinstance(v, (float, Fraction)):
        return "r"
    if isinstance(v, z3.ExprRef):
        return "i" if z3.is_int(v) or z3.is_bool(v) else "r"
    raise Unsupported("value of type %r has no storage class" % type(v))


def W(z, kind=None):
    """z3 term -> python value when constant, else proxy"""
    z = z3.simplify(z)
    if kind == "s":
        if z3.is_rational_value(z):
            fr = Fraction(z.numerator_as_long(), z.denominator_as_long())
            if fr in STR_CONSTS:
                return STR_CONSTS[fr]
        return SStr(z)
    if z3.is_bool(z):
        if z3.is_true(z):
            return True
        if z3.is_false(z):
            return False
        return SBool(z)
    if z3.is_int_value(z):
        return z.as_long()
    if z3.is_rational_value(z):
        fr = Fraction(z.numerator_as_long(), z.denominator_as_long())
        f = float(fr)
        if Fraction(f) == fr:
            return f
        return SNum(z)
    return SNum(z)


_U = re.compile(r"\\u\{([0-9a-fA-F]+)\}|\\u([0-9a-fA-F]{4})")


def decode_z3_string(z):
    s = z.as_string()
    return _U.sub(lambda m: chr(int(m.group(1) or m.group(2), 16)), s)


def model_value(model, term):
    """evaluate a term under a model -> python value (str / int / Fraction / bool)"""
    v = model.eval(term, model_completion=True)
    if z3.is_bool(v):
        return z3.is_true(v)
    if z3.is_int_value(v):
        return v.as_long()
    if z3.is_rational_value(v):
        fr = Fraction(v.numerator_as_long(), v.denominator_as_long())
        return int(fr) if fr.denominator == 1 else fr
    if z3.is_algebraic_value(v):
        a = v.approx(20)
        return Fraction(a.numerator_as_long(), a.denominator_as_long())
    raise Inconclusive("cannot concretise %s" % v)


def conc(dec, v):
    """evaluate a proxy / term / container under a model (Decoder) -> plain python value"""
    if not isinstance(dec, Decoder):
        dec = Decoder(dec)
    if isinstance(v, SStr):
        return dec.string(v.z)
    if isinstance(v, (SNum, SBool)):
        return dec.num(v.z)
    if isinstance(v, z3.ExprRef):
        return dec.num(v)
    if hasattr(v, "concretise"):
        return v.concretise(dec)
    if isinstance(v, dict):
        return {k: conc(dec, x) for k, x in v.items()}
    if isinstance(v, (list, tuple)):
        return [conc(dec, x) for x in v]
    return v
