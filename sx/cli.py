"""./check <Cxx> [--tier quick|thorough] | ./check replay <file>"""
import os, sys, json, time, hashlib, argparse, warnings, traceback
warnings.filterwarnings("ignore")

ROOT = os.path.dirname(os.path.dirname(os.path.abspath(__file__)))
sys.path.insert(0, ROOT)


def load_known():
    p = os.path.join(ROOT, "known_findings.json")
    if not os.path.exists(p):
        return []
    return json.load(open(p))


def main(argv=None):
    ap = argparse.ArgumentParser()
    ap.add_argument("prop")
    ap.add_argument("rest", nargs="*")
    ap.add_argument("--tier", default=os.environ.get("VERIF_TIER", "quick"))
    ap.add_argument("--jobs", type=int, default=None)
    ap.add_argument("--only", default=None, help="run only obligations whose name contains this")
    ap.add_argument("--no-evidence", action="store_true")
    args = ap.parse_args(argv)
    if args.prop == "replay":
        return replay_file(args.rest[0])
    seed = int(os.environ.get("VERIF_SEED", "0") or 0)
    os.environ["VERIF_SEED"] = str(seed)
    tier = args.tier if args.tier in ("quick", "thorough") else "quick"
    from props import registry
    from sx.run import run_obligation
    from sx import real
    pid = args.prop
    if pid not in registry.PROPS:
        print("unknown property %s" % pid)
        return 2
    spec = registry.PROPS[pid]
    known = load_known()
    known_ids = {k["id"]: k for k in known if k.get("status") == "known" and pid in k.get("properties", [])}
    t0 = time.time()
    tot = dict(paths=0, decisions=0, solver_queries=0, solver_s=0.0, infeasible=0, choices=0)
    ob_reports, samples, functions, lines = [], [], set(), set()
    violations, known_hits, inconclusive, harness_errors = [], {}, [], []
    validated, validation_failures = 0, []
    soft = []
    n_assert_checked = 0
    for task in spec["tasks"](tier):
        name, params, prefixes = task["ob"], task.get("params", {}), task["want"]
        if args.only and args.only not in name:
            continue
        if task.get("fn"):
            rep = task["fn"](tier=tier, seed=seed, **params)
            ob_reports.append(rep["report"])
            for k in tot:
                tot[k] += rep.get("stats", {}).get(k, 0)
            violations.extend(rep.get("violations", []))
            inconclusive.extend(rep.get("inconclusive", []))
            samples.extend(rep.get("samples", [])[:2])
            validated += rep.get("validated", 0)
            functions |= set(rep.get("functions", []))
            for kid, what in rep.get("known", []):
                known_hits.setdefault(kid, what)
            continue
        if task.get("witness_rate") is not None:
            os.environ["SX_WITNESS_RATE"] = str(task["witness_rate"])
        else:
            os.environ.pop("SX_WITNESS_RATE", None)
        import sx.run as _r
        _r.WITNESS_RATE = float(os.environ.get("SX_WITNESS_RATE", "0.02"))
        out = run_obligation(name, params, jobs=task.get("jobs", args.jobs), want=prefixes,
                             cap_s=task.get("cap_s"))
        for k in tot:
            tot[k] += out.stats.get(k, 0)
        for (f, fn, ln) in out.cov:
            functions.add("%s:%s" % (f, fn))
            lines.add((f, ln))
        rep = dict(obligation=name, params=params, assertions=prefixes, paths=out.paths,
                   decisions=out.stats["decisions"], solver_queries=out.stats["solver_queries"],
                   solver_s=round(out.stats["solver_s"], 2), wall_s=round(out.wall, 2),
                   failed=len(out.failed), inconclusive=len(out.inconclusive), errors=len(out.errors))
        ob_reports.append(rep)
        if out.paths == 0 and not out.inconclusive and not out.errors:
            harness_errors.append("%s: no feasible path (vacuous obligation)" % name)
        for r in out.inconclusive:
            inconclusive.append("%s: %s" % (name, r["why"]))
        if out.soft:
            soft.append("%s: %s (%d paths)" % (name, out.soft[0], len(out.soft)))
        for r in out.errors:
            harness_errors.append("%s: %s\n%s" % (name, r["why"], r.get("tb", "")))
        if out.infos:
            samples.append(dict(obligation=name, path_info=out.infos[seed % len(out.infos)]))
        # witnesses of passing paths: the symbolic prediction must equal the real run
        for wsc in out.witnesses[: task.get("max_witness", 10 if tier == "thorough" else 3)]:
            try:
                obs, d = real.run_and_compare(wsc)
            except Exception as ex:
                d = ["replay crashed: %r" % (ex,)]
            if d:
                validation_failures.append("%s: witness replay mismatch: %s" % (name, d[:3]))
            else:
                validated += 1
                if len(samples) < 6:
                    one = wsc["multi"][0] if "multi" in wsc else wsc
                    if one.get("kind") == "kernel":
                        samples.append(dict(obligation=name, kernel_inputs={k: one.get(k) for k in ("which", "rows", "when", "pruned", "blur")},
                                            real_result=obs["obs"]))
                        continue
                    if one.get("kind") == "db":
                        samples.append(dict(obligation=name, db_scenario={k: one.get(k) for k in ("name", "entry", "crash_at")},
                                            real_observation=obs["obs"][:6]))
                        continue
                    samples.append(dict(obligation=name, witness_commands=[a for a in one["script"] if a[0] == "deliver"][-2:],
                                        real_observation=obs["obs"][:4]))
        # counterexamples: replay on real sqlite before believing them
        seen = set()
        for f in out.failed:
            key = f["assertion"]
            if key in seen:
                continue
            seen.add(key)
            v = confirm(real, pid, name, f)
            if v["status"] == "confirmed":
                violations.append(v)
            else:
                harness_errors.append("%s/%s: counterexample did not reproduce on the real code: %s"
                                      % (name, key, v["why"]))
        for f in out.known:
            kid = f["kf"]
            if kid in known_hits:
                continue
            if kid not in known_ids:
                # a signature nobody listed for this property: treat as an ordinary violation
                v = confirm(real, pid, name, f)
                if v["status"] == "confirmed":
                    violations.append(v)
                else:
                    harness_errors.append("%s/%s: unlisted finding did not reproduce: %s" % (name, f["assertion"], v["why"]))
                continue
            v = confirm(real, pid, name, f, write=False)
            if v["status"] == "confirmed":
                known_hits[kid] = "%s (%s, assertion %s)" % (known_ids[kid]["what"], name, f["assertion"])
    wall = time.time() - t0
    status = 0
    for kid, what in sorted(known_hits.items()):
        print("KNOWN-FINDING: property=%s %s %s" % (pid, kid, what))
    for v in violations:
        print("VIOLATION property=%s replay=%s" % (pid, v["replay"]))
        print("  assertion %s in %s: %s" % (v["assertion"], v["obligation"], v.get("summary", "")))
        status = 1
    if soft and not violations:
        inconclusive.extend(soft)
    if validation_failures or harness_errors or inconclusive:
        for m in (validation_failures + harness_errors)[:10]:
            print("HARNESS-ERROR %s" % m)
        for m in inconclusive[:10]:
            print("INCONCLUSIVE %s" % m)
        if status == 0:
            status = 2
    if not args.no_evidence and not args.only:
        ev = dict(property_id=pid, tier=tier, seed=seed, level=spec.get("level", "model_checking"),
                  coverage=dict(
                      states=max(tot["paths"], 0), transitions=tot["decisions"] + tot["choices"],
                      traces_validated_against_impl=validated, samples=samples[:8] or [dict(note="no sample")],
                      obligations=len(ob_reports), discharged=sum(1 for r in ob_reports if not r.get("failed") and
                                                                  not r.get("inconclusive") and not r.get("errors")),
                      solver_queries=tot["solver_queries"], solver_s=round(tot["solver_s"], 2),
                      infeasible_paths=tot["infeasible"],
                      functions_encoded=sorted(functions), lines_covered=len(lines),
                      obligation_reports=ob_reports, bounds=spec["bounds"](tier),
                      exhaustive=(status in (0, 1) and not inconclusive),
                      explanation=spec["explanation"],
                      rule="states = feasible symbolic paths of the real functions (each path covers all "
                           "values of its symbolic inputs and pre-state); transitions = decisions taken",
                      inconclusive=inconclusive[:5], known_findings=sorted(known_hits)),
                  assumptions=spec["assumptions"], wall_s=round(wall, 2), violations=len(violations))
        os.makedirs(os.path.join(ROOT, "evidence"), exist_ok=True)
        json.dump(ev, open(os.path.join(ROOT, "evidence", "%s.json" % pid), "w"), indent=1, default=str)
    print("%s tier=%s: %d obligations, %d paths, %d solver queries (%.1fs solver), %d witness replays, wall %.1fs -> exit %d"
          % (pid, tier, len(ob_reports), tot["paths"], tot["solver_queries"], tot["solver_s"], validated, wall, status))
    return status


def confirm(real, pid, obname, f, write=True):
    sc = f.get("script")
    if not sc:
        return dict(status="unconfirmed", why=f.get("script_error", "no script"))
    try:
        obs, d = real.run_and_compare(sc)
    except Exception as ex:
        return dict(status="unconfirmed", why="replay crashed: %r\n%s" % (ex, traceback.format_exc(limit=5)))
    if d:
        return dict(status="unconfirmed", why="; ".join(d[:3]))
    h = hashlib.sha256(json.dumps(sc, sort_keys=True, default=str).encode()).hexdigest()[:12]
    path = os.path.join(ROOT, "replays", "%s-%s.json" % (pid, h))
    if write:
        os.makedirs(os.path.dirname(path), exist_ok=True)
        json.dump(dict(property=pid, obligation=obname, assertion=f["assertion"], replay=sc,
                       real_observation=obs), open(path, "w"), indent=1, default=str)
    one = sc["multi"][-1] if "multi" in sc else sc
    if one.get("kind") == "kernel":
        return dict(status="confirmed", replay=path, assertion=f["assertion"], obligation=obname,
                    summary="_summarize_%s(rows=%s, when=%s, pruned=%s, blur=%s) -> %s" % (
                        one["which"], json.dumps(one["rows"])[:200], one["when"], one["pruned"], one["blur"],
                        json.dumps(obs["obs"])[:200]))
    if one.get("kind") == "db":
        return dict(status="confirmed", replay=path, assertion=f["assertion"], obligation=obname,
                    summary="%s(%s) initial=%s crash_at=%s -> observed %s" % (
                        one.get("entry"), one.get("name"), str(one.get("initial"))[:80], one.get("crash_at"),
                        json.dumps(obs["obs"])[:300]))
    cmds = [a for a in one["script"] if a[0] in ("deliver", "prune", "expire", "restart", "disconnect") and
            (len(a) < 4 or a[-1] == "step")]
    return dict(status="confirmed", replay=path, assertion=f["assertion"], obligation=obname,
                summary="commands %s -> observed %s" % (json.dumps(cmds)[:300], json.dumps(obs["obs"])[:300]))


def replay_file(path):
    from sx import real
    d = json.load(open(path))
    if d.get("kind") == "allocator-kernel":
        from props import alloc_kernel
        names, draws = d["names_in_use"], d.get("random_draws") or [1000]
        want = d["real_result"][1]
        kind, val = alloc_kernel.real_run(names, d["allow_list"], lambda seq: want if want in seq else seq[0], draws)
        same = [kind, val] == d["real_result"]
        print(json.dumps(dict(property="C04", post=d.get("post"), reproduces=same, real_result=[kind, val]), indent=1))
        return 1 if same else 2
    sc = d["replay"]
    obs, diffs = real.run_and_compare(sc)
    print(json.dumps(dict(property=d.get("property"), assertion=d.get("assertion"),
                          reproduces=not diffs, diffs=diffs, observed=obs["obs"]), indent=1, default=str))
    return 1 if not diffs else 2


if __name__ == "__main__":
    sys.exit(main())
