#!/bin/sh
# Build the offline overlay venv: /venv's interpreter + /venv site-packages (repo deps, editable /repo) + z3-solver wheel.
set -e
cd "$(dirname "$0")"
V=.venv
if [ -x "$V/bin/python" ] && "$V/bin/python" -c "import z3, wormhole_mailbox_server" 2>/dev/null; then
  exit 0
fi
rm -rf "$V"
/venv/bin/python -m venv --without-pip "$V"
SP=$("$V/bin/python" -c "import sysconfig; print(sysconfig.get_paths()['purelib'])")
echo "import site; site.addsitedir('/venv/lib/python3.12/site-packages')" > "$SP/overlay.pth"
PIP_NO_INDEX=1 /venv/bin/python -m pip --python "$V/bin/python" install -q --no-index --find-links /opt/veriftools/wheels z3-solver
"$V/bin/python" -c "import z3, wormhole_mailbox_server; print('venv ok', z3.get_version_string())"
