#!/bin/bash
# usage: tools/try_equiv.sh <seed-dir-name> <prop> [<prop> ...] : apply an equivalent refactoring, run checks, revert
name=$1; shift
cd /verif
if [ -n "$(git -C /repo status --porcelain -- src)" ]; then echo "REFUSING: /repo/src dirty"; exit 3; fi
git -C /repo apply /verif/seeded/$name/patch.diff || { echo "patch does not apply"; exit 3; }
for p in "$@"; do
  ./check $p --no-evidence > /tmp/equiv_${name}_$p.log 2>&1; rc=$?
  echo "$name $p rc=$rc $(grep -E 'VIOLATION|HARNESS|INCONCL' /tmp/equiv_${name}_$p.log | head -2 | cut -c1-220)"
done
git -C /repo checkout -- src
