"""C19 / C20: the real database.py entry points on the file-system model, with a crash injected at
every numbered environment event (file-system call, SQL statement, commit) and symbolic content."""
import z3
from sx.engine import E, SBool, SStr, SNum, Z, Inconclusive, Unsupported
from sx.run import obligation, PathResult
from sx.relstore import RelStore, Snapshot
from sx.fsmodel import FS, File, Crash, catalog_of
from sx.world import NullLog
from .common import And, Or, Implies, T, F, count
import wormhole_mailbox_server.database as DBM

TARGET = {"channel": lambda: DBM.CHANNELDB_TARGET_VERSION, "usage": lambda: DBM.USAGEDB_TARGET_VERSION}
PATH = "/data/relay.sqlite"


# files next to the database that the entry points were not asked about (the server's other database, an
# unrelated one): never to be touched.  The first is named like the database plus a dot-suffix — what a
# sloppy "stale temporary" pattern would match, but not mkstemp's 8 random characters.
NEIGHBOURS = ["relay.sqlite.usage", "relay.sqlitex", "other.sqlite"]


def add_neighbours(fs):
    import os
    marks = {}
    for nm in NEIGHBOURS:
        st = fresh_reference("usage", DBM.USAGEDB_TARGET_VERSION)
        st.add_row("version", True, version=DBM.USAGEDB_TARGET_VERSION)
        st.seal()
        f = File("db", st)
        fs.files[os.path.join(os.path.dirname(PATH), nm)] = f
        marks[os.path.join(os.path.dirname(PATH), nm)] = f
    return marks


def neighbours_kept(fs, marks):
    return all(fs.files.get(p) is f and f.writes == 0 and f.kind == "db" for p, f in marks.items())


def fresh_reference(name, version):
    st = RelStore("ref")
    st.load_schema(DBM.get_schema(name, version))
    return st


def run_entry(fs, fn, *args):
    """call a database.py entry point on the model; returns (result, exception, crashed)"""
    DBM.log = NullLog()
    fs.install(DBM)
    try:
        try:
            return fn(*args), None, False
        except Crash:
            return None, None, True
        except (Inconclusive,):
            raise
        except Exception as ex:
            return None, ex, False
    finally:
        fs.uninstall(DBM)


def complete_db(store, name, version):
    """term/bool: the store is a complete database of this schema version"""
    ref = fresh_reference(name, version)
    if catalog_of(store) != catalog_of(ref):
        return False
    rows = store.tables["version"].rows
    return And(count([r.p for r in rows]) == 1,
               *[Implies(r.p, And(z3.Not(r.n["version"]), r.v["version"] == version)) for r in rows])


def file_store(fs, path):
    f = fs.files.get(path)
    if f is None or f.kind != "db" or f.store is None:
        return None
    return f.store


def sym_rows(e, store, table, n, tag):
    """n symbolic rows (presence bits, every column nullable) appended to a store"""
    tb = store.tables[table]
    for i in range(n):
        vals = {}
        for c in tb.cols:
            k = c["sort"]
            nm = "%s.%s%d.%s" % (tag, table, i, c["name"])
            v = e.sym_str(nm) if k == "s" else (e.sym_int(nm) if k == "i" else e.sym_real(nm))
            vals[c["name"]] = ("nullable", (e.sym_bool(nm + ".null"), v))
        store.add_row(table, e.sym_bool("%s.%s%d.p" % (tag, table, i)), **vals)


def assume_valid_content(e, st):
    """the pre-existing file is a database SQLite itself could have produced: primary keys unique and
    not NULL, foreign keys resolved (otherwise the start-up integrity check rightly refuses it)"""
    for t, tb in st.tables.items():
        keys = list(tb.pk)
        for c in keys:
            for i, a in enumerate(tb.rows):
                e.assume(z3.Implies(a.p, z3.Not(a.n[c])))
                for b in tb.rows[:i]:
                    e.assume(z3.Not(z3.And(a.p, b.p, a.v[c] == b.v[c])))
    for term, _ in st.fk_violations():
        e.assume(z3.Not(term))


def rows_preserved(orig, now, tables):
    """every present row of `orig` is present and unchanged in `now` (slot-wise: rows are only appended)"""
    parts = []
    for t in tables:
        if now is None or t not in now.tables:
            parts += [z3.Not(a.p) for a in orig.tables[t]]       # nothing there: fine only if nothing was there
            continue
        # slots beyond what the file now holds: their rows are gone
        parts += [z3.Not(a.p) for a in orig.tables[t][len(now.tables[t]):]]
        for a, q in zip(orig.tables[t], now.tables[t]):
            parts.append(Implies(a.p, And(q.p, *[a.v[c] == q.v[c] for c in a.v], *[a.n[c] == q.n[c] for c in a.n])))
            parts.append(Implies(z3.Not(a.p), z3.Not(q.p)))
    return And(*parts)


def same_content(a_snap, b_snap):
    if set(a_snap.tables) != set(b_snap.tables):
        return False
    parts = []
    for t in a_snap.tables:
        if len(a_snap.tables[t]) != len(b_snap.tables[t]):
            return False
        for a, q in zip(a_snap.tables[t], b_snap.tables[t]):
            parts.append(And(a.p == q.p, Implies(a.p, And(*[a.v[c] == q.v[c] for c in a.v],
                                                          *[a.n[c] == q.n[c] for c in a.n]))))
    return And(*parts)


# =============================================================================================
@obligation("db.create_crash")
def db_create_crash(e, name="channel", entry="get"):
    """first-time creation interrupted at every event: nothing is left at the path, the next start
    succeeds with a complete database"""
    target = TARGET[name]()
    fn = {"get": lambda p: DBM._get_db(p, name, target),
          "create": (DBM.create_channel_db if name == "channel" else DBM.create_usage_db),
          "upgrade": (DBM.create_or_upgrade_channel_db if name == "channel" else DBM.create_or_upgrade_usage_db)}[entry]
    fs0 = FS()
    nb0 = add_neighbours(fs0)
    db, ex, _ = run_entry(fs0, fn, PATH)
    A = {}
    A["C19.neighbours_untouched"] = neighbours_kept(fs0, nb0)
    A["C19.creates"] = And(ex is None, db is not None,
                           complete_db(file_store(fs0, PATH), name, target) if file_store(fs0, PATH) else False,
                           complete_db(db, name, target) if db is not None else False)
    A["C19.pragmas"] = (db is not None and db.foreign_keys and
                        [p for p in db.pragmas] == [("foreign_keys", "ON"), ("foreign_key_check", None)])
    A["C09.pragmas"] = A["C19.pragmas"]     # SQLite defaults (rollback journal, synchronous=FULL) are not weakened
    n = len(fs0.events)
    c = e.choose(n, "crash_at")
    fs1 = FS(crash_at=c)
    nb1 = add_neighbours(fs1)
    _, ex1, crashed = run_entry(fs1, fn, PATH)
    left = fs1.files.get(PATH)
    # interrupted before the rename took effect: nothing at the path; after it: a complete database
    A["C19.nothing_or_complete"] = (left is None) or (left.kind == "db" and left.store is not None and
                                                      bool_or_term(complete_db(left.store, name, target)))
    fs1.power_off()
    db2, ex2, _ = run_entry(fs1, fn if entry != "create" or left is None else (lambda p: DBM._get_db(p, name, target)), PATH)
    st = file_store(fs1, PATH)
    A["C19.next_start"] = And(ex2 is None, st is not None, complete_db(st, name, target) if st is not None else False)
    A["C19.neighbours_untouched"] = A["C19.neighbours_untouched"] and neighbours_kept(fs1, nb1)
    nb_ok = neighbours_kept(fs1, nb1)
    restart_entry = entry if (entry != "create" or left is None) else "get"
    ok2 = A["C19.next_start"]

    def replayer(dec):
        pred = dict(first="Crash" if crashed else (type(ex1).__name__ if ex1 else None),
                    path_exists_after_first=(left is not None), restart=type(ex2).__name__ if ex2 else None,
                    events_first=[k for k, _ in fs0.events[:c + 1]], neighbours_kept=nb_ok)
        if ex2 is None:
            pred["final_schema_ok"] = st is not None and catalog_of(st) == catalog_of(fresh_reference(name, target))
            pred["final_version_ok"] = tv(dec, ok2)
        return dict(kind="db", name=name, entry=entry, initial=None, crash_at=c, restart_entry=restart_entry,
                    neighbours=NEIGHBOURS, predicted=pred)
    return PathResult(A, info=dict(name=name, entry=entry, crash_at=c, event=fs0.events[c], crashed=crashed,
                                   left=sorted(fs1.files)), replayer=replayer)


def bool_or_term(x):
    return x


def tv(dec, x):
    """python truth value of a bool / term under the model"""
    if isinstance(x, bool):
        return x
    return bool(dec.num(x))


def conc_rows(dec, snap, skip=("version",)):
    out = {}
    for t, rows in snap.tables.items():
        if t in skip:
            continue
        kinds = {c["name"]: c["sort"] for c in snap.catalog[t]}
        lst = []
        for r in rows:
            if not dec.num(r.p):
                continue
            d = {}
            for c in r.v:
                if dec.num(r.n[c]):
                    d[c] = None
                elif kinds[c] == "s":
                    d[c] = dec.string(r.v[c])
                else:
                    v = dec.num(r.v[c])
                    d[c] = float(v) if not isinstance(v, int) else v
            lst.append(d)
        out[t] = lst
    return out


@obligation("db.open_existing")
def db_open_existing(e, name="channel", kind="current"):
    """existing file: current version keeps every row and is not written; newer version, junk or an
    empty file are rejected with an error and nothing is written or created"""
    target = TARGET[name]()
    fs = FS()
    orig = None
    if kind in ("current", "newer"):
        st = fresh_reference(name, target)
        for t in st.tables:
            if t != "version":
                sym_rows(e, st, t, 2, "x")
        ver = target
        if kind == "newer":
            v = e.sym_int("version")
            e.assume(v.z > target)
            ver = v
        st.add_row("version", True, version=ver)
        assume_valid_content(e, st)
        st.seal()
        fs.files[PATH] = File("db", st)
        orig = st.committed
    elif kind == "junk":
        fs.files[PATH] = File("junk")
    elif kind == "empty":
        fs.files[PATH] = File("db", None)
    nb = add_neighbours(fs)
    before = dict(fs.files)
    writes_before = {p: f.writes for p, f in fs.files.items()}
    entry = [lambda p: DBM._get_db(p, name, target), DBM.open_existing_db,
             (DBM.create_or_upgrade_channel_db if name == "channel" else DBM.create_or_upgrade_usage_db)][e.choose(3, "entry")]
    db, ex, _ = run_entry(fs, entry, PATH)
    A = {}
    untouched = (sorted(fs.files) == sorted(before) and all(fs.files[p] is before[p] for p in before) and
                 all(fs.files[p].writes == writes_before[p] for p in before))
    A["C19.file_untouched"] = untouched
    A["C19.neighbours_untouched"] = neighbours_kept(fs, nb)
    nb_ok = A["C19.neighbours_untouched"]
    if kind == "current":
        A["C19.opens"] = (ex is None and db is not None)
        if db is not None:
            A["C19.rows_kept"] = And(same_content(orig, db.snapshot()), not db.dirty)
            A["C19.no_write_stmt"] = all(k in ("pragma", "select") for k, _ in db.stmt_log)
    else:
        if entry is DBM.open_existing_db and kind in ("newer", "empty"):
            # the open-only entry point does not look at the version: it hands back a connection
            A["C19.open_only_no_write"] = (ex is None)
        else:
            A["C19.rejected"] = (ex is not None and db is None)
            if kind in ("junk", "newer"):
                A["C19.rejected_dberror"] = isinstance(ex, DBM.DBError)
    entry_name = {0: "get", 1: "open_existing", 2: "upgrade"}[[i for i in range(3) if True][0]] if False else None
    which = "get" if entry not in (DBM.open_existing_db,) and entry not in (DBM.create_or_upgrade_channel_db, DBM.create_or_upgrade_usage_db) \
        else ("open_existing" if entry is DBM.open_existing_db else "upgrade")

    def replayer(dec):
        if kind in ("current", "newer"):
            init = dict(version=dec.num(Z(ver)) if not isinstance(ver, int) else ver, schema_version=target,
                        rows=conc_rows(dec, orig))
        else:
            init = kind
        pred = dict(first=type(ex).__name__ if ex else None, unchanged_after_first=bool(untouched),
                    events_first=[k for k, _ in fs.events], neighbours_kept=nb_ok)
        if kind == "current":
            pred["rows_kept_after_first"] = True
        return dict(kind="db", name=name, entry=which, initial=init, crash_at=None, restart_entry=None,
                    neighbours=NEIGHBOURS, predicted=pred)
    return PathResult(A, info=dict(name=name, kind=kind, exc=type(ex).__name__ if ex else None,
                                   events=[k for k, _ in fs.events]), replayer=replayer)


@obligation("db.refuse")
def db_refuse(e, which="create_existing"):
    """create-only entry points refuse an existing file before touching it; the open-only entry
    point refuses a missing file without creating it"""
    fs = FS()
    A = {}
    if which == "create_existing":
        kinds = ["db", "junk", "empty"]
        k = kinds[e.choose(3, "kind")]
        if k == "db":
            st = fresh_reference("channel", 1)
            st.add_row("version", True, version=1)
            st.seal()
            fs.files[PATH] = File("db", st)
        else:
            fs.files[PATH] = File("junk" if k == "junk" else "db", None)
        before = dict(fs.files)
        fn = [DBM.create_channel_db, DBM.create_usage_db][e.choose(2, "fn")]
        db, ex, _ = run_entry(fs, fn, PATH)
        A["C19.refuses"] = isinstance(ex, DBM.DBAlreadyExists)
        A["C19.no_connect"] = all(kd not in ("connect", "sql", "mkstemp", "rename", "copy") for kd, _ in fs.events)
        A["C19.file_untouched"] = (sorted(fs.files) == sorted(before) and all(fs.files[p] is before[p] for p in before))
    else:
        db, ex, _ = run_entry(fs, DBM.open_existing_db, PATH)
        A["C19.refuses"] = isinstance(ex, DBM.DBDoesntExist)
        A["C19.no_connect"] = all(kd not in ("connect", "sql", "mkstemp", "rename", "copy") for kd, _ in fs.events)
        A["C19.nothing_created"] = (fs.files == {})
    return PathResult(A, info=dict(which=which, events=[k for k, _ in fs.events]))


@obligation("db.upgrade")
def db_upgrade(e, rows=2):
    """usage v1 -> v2 with arbitrary rows; crash at every event; restart completes the upgrade"""
    target = DBM.USAGEDB_TARGET_VERSION
    old = target - 1

    def make_fs(crash_at=None):
        fs = FS(crash_at=crash_at)
        st = fresh_reference("usage", old)
        for t in st.tables:
            if t != "version":
                sym_rows_shared(e, st, t, rows if t != "current" else 1, cache)
        st.add_row("version", True, version=old)
        st.seal()
        fs.files[PATH] = File("db", st)
        fs.nb = add_neighbours(fs)
        return fs, st.committed
    cache = {}
    fn = lambda p: DBM._get_db(p, "usage", target)
    fs0, orig = make_fs()
    db, ex, _ = run_entry(fs0, fn, PATH)
    data_tables = [t for t in orig.tables if t != "version"]
    A = {}
    final = file_store(fs0, PATH)
    A["C20.upgrades"] = And(ex is None, final is not None,
                            complete_db(final, "usage", target) if final is not None else False,
                            rows_preserved(orig, final.committed, data_tables) if final is not None else False)
    bk = fs0.files.get("%s-backup-v%d" % (PATH, old))
    A["C20.backup"] = (bk is not None and bk.kind == "db" and bk.store is not None and
                       bool_or_term(same_content(orig, bk.store.committed)))
    # the backup exists before the first upgrade statement runs
    ev = [k for k, _ in fs0.events]
    first_sql_after_copy = None
    if "copy-done" in ev:
        i = ev.index("copy-done")
        writes_before_copy = [k for k in ev[:i] if k == "committed"]
        A["C20.backup_first"] = (len(writes_before_copy) == 0)
    else:
        A["C20.backup_first"] = False
    n = len(fs0.events)
    c = e.choose(n, "crash_at")
    fs1, orig1 = make_fs(crash_at=c)
    _, ex1, crashed = run_entry(fs1, fn, PATH)
    st = file_store(fs1, PATH)
    A["C20.no_record_lost"] = rows_preserved(orig1, st.committed if st is not None else None, data_tables)
    fs1.power_off()
    db2, ex2, _ = run_entry(fs1, fn, PATH)
    st2 = file_store(fs1, PATH)
    A["C20.restart_completes"] = And(ex2 is None, st2 is not None,
                                     complete_db(st2, "usage", target) if st2 is not None else False,
                                     rows_preserved(orig1, st2.committed, data_tables) if st2 is not None else False)
    # whenever the upgrade has gone through (now or before the crash), the backup next to the database is
    # a faithful copy of the old file
    bk1 = fs1.files.get("%s-backup-v%d" % (PATH, old))
    A["C20.backup_after_restart"] = (bk1 is not None and bk1.kind == "db" and bk1.store is not None and
                                     bool_or_term(same_content(orig1, bk1.store.committed)))
    bk_ok = A["C20.backup_after_restart"]
    A["C19.neighbours_untouched"] = neighbours_kept(fs0, fs0.nb) and neighbours_kept(fs1, fs1.nb)
    nb0_ok, nb1_ok = neighbours_kept(fs0, fs0.nb), neighbours_kept(fs1, fs1.nb)
    kept1, done2 = A["C20.no_record_lost"], A["C20.restart_completes"]
    up0, bk0 = A["C20.upgrades"], A["C20.backup"]

    def replayer(dec):
        init = dict(version=old, schema_version=old, rows=conc_rows(dec, orig))
        p0 = dict(first=type(ex).__name__ if ex else None, events_first=[k for k, _ in fs0.events],
                  neighbours_kept=nb0_ok)
        if ex is None:
            p0["backup_identical"] = tv(dec, bk0)
            p0["rows_kept_after_first"] = tv(dec, up0)
        p1 = dict(first="Crash" if crashed else (type(ex1).__name__ if ex1 else None),
                  rows_kept_after_first=tv(dec, kept1), restart=type(ex2).__name__ if ex2 else None,
                  events_first=[k for k, _ in fs0.events[:c + 1]], neighbours_kept=nb1_ok)
        if ex2 is None:
            p1["final_schema_ok"] = st2 is not None and catalog_of(st2) == catalog_of(fresh_reference("usage", target))
            p1["final_rows_kept"] = tv(dec, done2)
            p1["backup_identical_after_restart"] = tv(dec, bk_ok)
        return dict(multi=[
            dict(kind="db", name="usage", entry="get", initial=init, crash_at=None, restart_entry=None,
                 check_backup=True, neighbours=NEIGHBOURS, predicted=p0),
            dict(kind="db", name="usage", entry="get", initial=init, crash_at=c, restart_entry="get",
                 check_backup=True, neighbours=NEIGHBOURS, predicted=p1)])
    return PathResult(A, info=dict(crash_at=c, event=fs0.events[c], exc=type(ex2).__name__ if ex2 else None,
                                   msg=str(ex2)[:80] if ex2 else None), replayer=replayer)


def sym_rows_shared(e, store, table, n, cache):
    """like sym_rows, but the same symbols for every file-system built on this path"""
    tb = store.tables[table]
    for i in range(n):
        key = (table, i)
        if key not in cache:
            vals = {}
            for c in tb.cols:
                k = c["sort"]
                nm = "v1.%s%d.%s" % (table, i, c["name"])
                v = e.sym_str(nm) if k == "s" else (e.sym_int(nm) if k == "i" else e.sym_real(nm))
                vals[c["name"]] = ("nullable", (e.sym_bool(nm + ".null"), v))
            cache[key] = (e.sym_bool("v1.%s%d.p" % (table, i)), vals)
        p, vals = cache[key]
        store.add_row(table, p, **vals)
