"""SymWorld: the real Server / AppNamespace / Mailbox / WebSocketServer objects of /repo wired to
RelStores, a symbolic clock, symbolic randomness and captured transports.

Pre-states are *bundles* (mailbox + sides + optional nameplate + messages, foreign keys shared by
construction).  In-memory state (registries, subscriptions, per-connection flags) is produced by
running the **real handlers** on an empty store first ("setup phase"), after which the store
content is replaced wholesale by the symbolic pre-state rows; so closures, flags and registry
entries are exactly what the code under test creates.  Everything done to the world is recorded in
``script`` so that a solver model can be replayed on real sqlite3 by sx.real.
"""
import sys, os, z3, sqlite3
from .engine import (E, Engine, IntName, SBool, SStr, SNum, SymDict, SymSet, Z, W, Abort, Inconclusive,
                     Unsupported, conc, tobool)
from .relstore import RelStore, Snapshot, STR, INT, REAL

import wormhole_mailbox_server.server as S
import wormhole_mailbox_server.server_websocket as WS
import wormhole_mailbox_server.server_tap as TAP
import wormhole_mailbox_server.database as DBM

from .rewrite import rewrite_set_displays
REWRITTEN = rewrite_set_displays(S) + rewrite_set_displays(WS)      # [] on the pinned tree
REAL_APPNS = S.AppNamespace
REAL = dict(S_log=S.log, WS_log=WS.log, TAP_log=TAP.log, DBM_log=DBM.log,
            gen=S.generate_mailbox_id, random=S.random, WS_time=WS.time, TAP_time=TAP.time,
            d2b=WS.dict_to_bytes, b2d=WS.bytes_to_dict, AppNamespace=S.AppNamespace)

CHANNEL_TABLES = ["mailboxes", "mailbox_sides", "nameplates", "nameplate_sides", "messages"]


class NullLog:
    errors = []

    def msg(self, *a, **k):
        pass

    def err(self, *a, **k):
        NullLog.errors.append(a[0] if a else None)


def _fresh_rows(rows):
    return [r.fresh() if hasattr(r, "fresh") else r for r in rows]


class SymAppNamespace(REAL_APPNS):
    """the real AppNamespace; registries keyed by client data become SymDicts, and the two pure
    summary functions are explored exhaustively *in place* and merged (engine.merge_call) instead of
    forking the whole operation once per ordering of side rows and per mood"""

    def __init__(self, *a, **k):
        REAL_APPNS.__init__(self, *a, **k)
        self._mailboxes = SymDict(list(self._mailboxes.items()))



def _merged(name):
    real = getattr(REAL_APPNS, name)

    def wrapper(self, side_rows, *args, **kwargs):
        return E().merge_call(real, lambda: (self, _fresh_rows(side_rows)) + tuple(args))
    wrapper.__name__ = name
    return wrapper


# (only if the working tree still has them under these names; otherwise they simply fork)
for _n in ("_summarize_mailbox", "_summarize_nameplate_usage"):
    if hasattr(REAL_APPNS, _n):
        setattr(SymAppNamespace, _n, _merged(_n))


class Factory:
    def __init__(self, server):
        self.server = server
        self.reactor = None


class SymMsg:
    """a JSON object: symbolic key presence, symbolic string values"""

    def __init__(self, pres, val):
        self.pres, self.val = pres, val

    def __contains__(self, k):
        if k not in self.pres:
            return False
        p = self.pres[k]
        if isinstance(p, bool):
            return p
        return E().decide(p)

    def __getitem__(self, k):
        if k in self:
            return self.val[k]
        raise KeyError(k)

    def get(self, k, d=None):
        return self.val[k] if k in self else d

    def has(self, k):
        p = self.pres.get(k, False)
        return z3.BoolVal(p) if isinstance(p, bool) else p

    def concretise(self, dec):
        out = {}
        for k, p in self.pres.items():
            if conc(dec, p) if not isinstance(p, bool) else p:
                out[k] = conc(dec, self.val[k])
        return out

    def __setitem__(self, k, v):
        raise Unsupported("handler mutates the inbound message")

    def __iter__(self):
        raise Unsupported("iteration over inbound message keys")

    def __repr__(self):
        return "<SymMsg>"


class SharedEnv:
    """environment outcomes (clock readings, generated ids, random draws) shared by the runs of a
    two-run product: the k-th draw of a kind in a phase is the same term in every run"""

    def __init__(self):
        self.q = {}

    def draw(self, w, kind, make):
        key = (w.phase, kind)
        lst = self.q.setdefault(key, [])
        i = w.env_pos.get(key, 0)
        w.env_pos[key] = i + 1
        if i < len(lst):
            return lst[i], False
        v = make()
        lst.append(v)
        return v, True


class Clock:
    def __init__(self, w):
        self.w, self.last, self.values = w, None, []
        self.frozen = None

    def time(self):
        e = E()
        if self.frozen is not None:
            t = self.frozen
        else:
            def make():
                d = z3.Real(e.name("dt"))
                e.assume(d >= 0)
                return d if self.last is None else self.last + d
            t, _ = self.w.env.draw(self.w, "clock", make)
        self.last = t
        self.values.append(t)
        self.w.script_env("clock", SNum(t))
        return SNum(t)


class RandomStub:
    def __init__(self, w):
        self.w = w

    def choice(self, seq):
        seq = list(seq)
        if not seq:
            raise IndexError("Cannot choose from an empty sequence")
        e = E()
        if not all(isinstance(x, str) for x in seq):
            raise Unsupported("random.choice over non-strings")
        self.w.choice_sets.append(list(seq))
        r, new = self.w.env.draw(self.w, "choice", lambda: e.sym_str("rchoice"))
        member = z3.Or(*[r.z == Z(x) for x in seq])
        if new:
            e.assume(member)
        elif not e.decide(member):
            # the other run of the product drew something that is not a candidate here: this run's
            # outcome is its own (and the other run's outcome stays unconstrained by this one)
            r = e.sym_str("rchoice'")
            e.assume(z3.Or(*[r.z == Z(x) for x in seq]))
        self.w.script_env("choice", r)
        return r

    def randrange(self, a, b=None):
        if b is None:
            a, b = 0, a
        e = E()
        r, new = self.w.env.draw(self.w, "randrange", lambda: e.sym_int("rrange"))
        e.assume(z3.And(r.z >= a, r.z < b))
        self.w.script_env("randrange", r)
        return r


def ident(x):
    return x


class Side:
    pass


class Bundle:
    pass


class SymWorld:
    def __init__(self, e, allow_list=True, blur=None, usage=False, welcome=None, label="w", env=None):
        self.e = e
        self.label = label
        self.env = env or SharedEnv()
        self.env_pos = {}
        self.script = []          # replayable actions
        self.obs = []             # observations in order
        self.cfg = dict(allow_list=allow_list, blur=blur, usage=usage, welcome=welcome or {})
        self.script.append(("config", dict(self.cfg)))
        self.db = RelStore("channel")
        self.db.foreign_keys = True
        self.db.load_schema(DBM.get_schema("channel", DBM.CHANNELDB_TARGET_VERSION))
        self.db.execute("INSERT INTO version (version) VALUES (?)", (DBM.CHANNELDB_TARGET_VERSION,))
        self.db.commit()
        self.usage = None
        if usage:
            self.usage = RelStore("usage")
            self.usage.foreign_keys = True
            self.usage.load_schema(DBM.get_schema("usage", DBM.USAGEDB_TARGET_VERSION))
            self.usage.execute("INSERT INTO version (version) VALUES (?)", (DBM.USAGEDB_TARGET_VERSION,))
            self.usage.commit()
        self.clock = Clock(self)
        self.random = RandomStub(self)
        self.fresh_ids = []
        self.choice_sets = []     # the candidate lists handed to random.choice, in call order
        self.bundles = []
        self.conns = []
        self.phase = "setup"
        NullLog.errors = []
        self.install()
        self.server = self._make_server()

    # ---- patching ----
    def install(self):
        nl = NullLog()
        S.log = nl
        WS.log = nl
        TAP.log = nl
        DBM.log = nl
        S.set = SymSet
        S.int = IntName
        WS.int = IntName
        S.AppNamespace = SymAppNamespace
        S.generate_mailbox_id = self.fresh_mailbox_id
        S.random = self.random
        WS.time = self.clock
        TAP.time = self.clock
        WS.dict_to_bytes = ident
        WS.bytes_to_dict = ident
        Engine.world = self

    @staticmethod
    def uninstall():
        S.log, WS.log, TAP.log, DBM.log = REAL["S_log"], REAL["WS_log"], REAL["TAP_log"], REAL["DBM_log"]
        if "set" in S.__dict__:
            del S.__dict__["set"]
        for m in (S, WS):
            if "int" in m.__dict__:
                del m.__dict__["int"]
        S.AppNamespace = REAL["AppNamespace"]
        S.generate_mailbox_id = REAL["gen"]
        S.random = REAL["random"]
        WS.time, TAP.time = REAL["WS_time"], REAL["TAP_time"]
        WS.dict_to_bytes, WS.bytes_to_dict = REAL["d2b"], REAL["b2d"]

    def _make_server(self):
        """build the service exactly as twistd would: the real makeService with its collaborators
        (rlimits, database creation, listening endpoint) stubbed; returns the real Server and keeps
        the real expire() closure and TimerService period"""
        c = self.cfg
        w = c["welcome"]
        opts = TAP.Options()
        symbolic_blur = isinstance(c["blur"], SNum)
        # a symbolic interval cannot pass the "%d" log line in make_server: plumb a placeholder
        # through makeService, check it arrives, then install the symbolic value
        opts["blur-usage"] = 7919 if symbolic_blur else c["blur"]
        opts["allow-list"] = c["allow_list"]
        opts["advertise-version"] = w.get("current_cli_version")
        opts["signal-error"] = w.get("error")
        opts["motd"] = w.get("motd")
        opts["channel-db"] = "<channel>"
        opts["usage-db"] = "<usage>" if self.usage is not None else None
        opts["port"] = "tcp:0"
        saved = (TAP.increase_rlimits, TAP.create_or_upgrade_channel_db, TAP.create_or_upgrade_usage_db)
        TAP.increase_rlimits = lambda: None
        TAP.create_or_upgrade_channel_db = lambda path: self.db
        TAP.create_or_upgrade_usage_db = lambda path: (self.usage if path is not None else None)
        try:
            parent = TAP.makeService(opts)
        finally:
            TAP.increase_rlimits, TAP.create_or_upgrade_channel_db, TAP.create_or_upgrade_usage_db = saved
        from twisted.application.internet import TimerService
        servers = [x for x in parent if isinstance(x, S.Server)]
        timers = [x for x in parent if isinstance(x, TimerService)]
        if len(servers) != 1 or len(timers) != 1:
            raise Unsupported("makeService did not produce exactly one Server and one TimerService")
        srv = servers[0]
        if symbolic_blur:
            if srv._blur_usage != 7919:
                raise Unsupported("makeService does not pass blur-usage through to the Server")
            srv._blur_usage = c["blur"]
        self.timer = timers[0]
        self.expire_fn = timers[0].call[0]
        self.period = timers[0].step
        self.service = parent
        srv._apps = SymDict(list(srv._apps.items()))
        return srv

    def expire(self):
        """one firing of the service timer: the real expire() closure"""
        self.script.append(("expire", self.phase))
        NullLog.errors = []
        ret = None
        try:
            self.expire_fn(*self.timer.call[1], **self.timer.call[2])
        except (Abort, Inconclusive):
            raise
        except Exception as ex:
            if self.phase == "step":
                self.obs.append(("exc", "expire", type(ex).__name__))
            ret = ex
        self.sweep_errors = list(NullLog.errors)
        if self.phase == "step":
            self.obs.append(("sweep_errors", len(self.sweep_errors)))
        return ret

    def script_env(self, kind, term):
        self.script.append(("env", kind, term))

    # ---- environment ----
    def fresh_mailbox_id(self):
        e = E()
        r, new = self.env.draw(self, "mailbox_id", lambda: e.sym_str("newmid"))
        for tb, col in (("mailboxes", "id"), ("messages", "mailbox_id"), ("mailbox_sides", "mailbox_id"),
                        ("nameplates", "mailbox_id")):
            for row in self.db.tables[tb].rows:
                e.assume(z3.Implies(row.p, row.v[col] != r.z))
        for x in self.fresh_ids + self.known_ids():
            e.assume(x != r.z)
        self.fresh_ids.append(r.z)
        self.script_env("mailbox_id", r)
        return r

    def known_ids(self):
        out = []
        for c in self.conns:
            mid = getattr(c, "_mailbox_id", None)
            if isinstance(mid, str):
                out.append(Z(mid))
        for app in self.server._apps.values():
            for k in app._mailboxes.keys():
                out.append(Z(k))
        return out

    # ---- connections ----
    def new_conn(self, label, open_=True):
        c = WS.WebSocketServer()
        c.factory = Factory(self.server)
        c.label = label
        c.frames = []
        c.sendMessage = lambda payload, isBinary=False, c=c: self._on_send(c, payload)
        self.conns.append(c)
        self.script.append(("conn", label, open_, self.phase))
        if open_:
            c.onOpen()
        return c

    def _on_send(self, c, payload):
        dirty = bool(self.db.dirty or self.db.in_tx) or bool(self.usage is not None and
                                                              (self.usage.dirty or self.usage.in_tx))
        rec = dict(conn=c.label, frame=payload, dirty=dirty, phase=self.phase,
                   commits=len(self.db.commit_log))
        c.frames.append(rec)
        if self.phase == "step":
            self.obs.append(("frame", c.label, payload, dirty))

    def deliver(self, c, msg):
        """feed one inbound JSON object to the real onMessage; returns the escaped exception or None"""
        self.script.append(("deliver", c.label, msg, self.phase))
        try:
            c.onMessage(msg, False)
        except (Abort, Inconclusive):
            raise
        except Exception as ex:
            if self.phase == "step":
                self.obs.append(("exc", c.label, type(ex).__name__))
            return ex
        return None

    def disconnect(self, c):
        self.script.append(("disconnect", c.label, self.phase))
        try:
            c.onClose(True, None, None)
        except (Abort, Inconclusive):
            raise
        except Exception as ex:
            if self.phase == "step":
                self.obs.append(("exc", c.label, type(ex).__name__))
            return ex
        finally:
            if c in self.conns:
                self.conns.remove(c)
        return None

    def restart(self):
        """kill -9 and start again on the same files: connections gone, registries empty"""
        self.script.append(("restart", self.phase))
        self.conns = []
        # the new process has new connection objects; uncommitted work of the old one is gone
        self.db = self.db.reopen()
        if self.usage is not None:
            self.usage = self.usage.reopen()
        # the new process reads the clock once at start-up (`rebooted`): its own draw sequence, so that
        # the runs of a product stay aligned on the clock readings of the commands
        ph, self.phase = self.phase, "restart"
        self.server = self._make_server()
        self.phase = ph

    def set_attr(self, c, attr, value):
        """override a plain per-connection protocol flag (recorded for replay)"""
        self.script.append(("setattr", c.label, attr, value))
        setattr(c, attr, value)

    def msg(self, type_, **fields):
        """concrete-typed message; field value: term/proxy/str, or (presence, value)"""
        pres, val = {"type": True}, {"type": type_}
        for k, v in fields.items():
            if isinstance(v, tuple):
                pres[k], val[k] = v
            else:
                pres[k], val[k] = True, v
        return SymMsg(pres, val)

    def bind(self, c, app, side):
        ex = self.deliver(c, self.msg("bind", appid=app, side=side))
        if ex is not None:
            raise Inconclusive("setup bind failed: %r" % ex)

    # ---- pre-state ----
    def make_bundle(self, S_=2, M=1, tag=None, nameplate="sym", crowd=0, relaxed=False):
        """fresh symbolic bundle (terms only; rows are loaded by load_prestate)"""
        e = self.e
        k = len(self.bundles)
        tag = tag or "b%d" % k
        b = Bundle()
        b.k = k
        b.app = e.sym_str(tag + ".app")
        b.mid = e.sym_str(tag + ".mid")
        b.p = e.sym_bool(tag + ".p")
        b.updated = e.sym_real(tag + ".updated")
        if nameplate == "sym":
            b.has_np = z3.And(b.p, e.sym_bool(tag + ".hasnp"))
        elif nameplate:
            b.has_np = b.p
        else:
            b.has_np = z3.BoolVal(False)
        b.for_np = z3.Or(b.has_np, e.sym_bool(tag + ".fornp"))
        b.npid = e.sym_int(tag + ".npid")
        b.name = e.sym_str(tag + ".name")
        b.sides = []
        prev = b.p
        for s in range(S_ + crowd):
            sd = Side()
            sd.s = s
            sd.side = e.sym_str("%s.side%d" % (tag, s))
            if relaxed:
                # crash-shaped: a mailbox may have no side row yet, a claim row may lack its mailbox side row
                sd.p = z3.And(prev, e.sym_bool("%s.ps%d" % (tag, s)))
            else:
                sd.p = b.p if s == 0 else z3.And(prev, e.sym_bool("%s.ps%d" % (tag, s)))
            prev = sd.p
            sd.opened = e.sym_bool("%s.opened%d" % (tag, s))
            sd.added = e.sym_real("%s.added%d" % (tag, s))
            sd.mood_null = e.sym_bool("%s.moodnull%d" % (tag, s))
            sd.mood = e.sym_str("%s.mood%d" % (tag, s))
            sd.np_p = z3.And(b.has_np if relaxed else z3.And(sd.p, b.has_np), e.sym_bool("%s.nps%d" % (tag, s)))
            sd.claimed = e.sym_bool("%s.claimed%d" % (tag, s))
            sd.np_added = e.sym_real("%s.npadded%d" % (tag, s))
            b.sides.append(sd)
        b.relaxed = relaxed
        b.msgs = []
        for j in range(M):
            m = Side()
            m.p = z3.And(b.p, e.sym_bool("%s.pmsg%d" % (tag, j)))
            m.side = e.sym_str("%s.mside%d" % (tag, j))
            m.phase = e.sym_str("%s.phase%d" % (tag, j))
            m.body = e.sym_str("%s.body%d" % (tag, j))
            m.rx = e.sym_real("%s.rx%d" % (tag, j))
            m.id_null = e.sym_bool("%s.idnull%d" % (tag, j))
            m.msg_id = e.sym_str("%s.msgid%d" % (tag, j))
            b.msgs.append(m)
        self.bundles.append(b)
        return b

    def assume_bundle_inv(self, next_npid=None):
        """INV_DB on the bundle terms (assumed before the setup phase so that registry look-ups
        with these keys are already decided)"""
        e = self.e
        B = self.bundles
        self.next_npid = next_npid if next_npid is not None else e.sym_int("next_npid")
        for i, b in enumerate(B):
            if i > 0:
                e.assume(z3.Implies(b.p, B[i - 1].p))             # symmetry breaking
            e.assume(z3.And(b.npid.z >= 1, b.npid.z < self.next_npid.z))
            for j in range(i):
                a = B[j]
                e.assume(z3.Implies(z3.And(a.p, b.p), a.mid.z != b.mid.z))                       # I1
                e.assume(z3.Implies(z3.And(a.has_np, b.has_np),
                                    z3.And(a.npid.z != b.npid.z,
                                           z3.Not(z3.And(a.app.z == b.app.z, a.name.z == b.name.z)))))  # I2
            for x in range(len(b.sides)):
                for y in range(x):
                    e.assume(z3.Implies(z3.And(z3.Or(b.sides[x].p, b.sides[x].np_p), z3.Or(b.sides[y].p, b.sides[y].np_p)),
                                        b.sides[x].side.z != b.sides[y].side.z))                 # I4/I5 keys
            if getattr(b, "relaxed", False):
                # INV_CRASH: a nameplate always has at least one side row (claim writes both at once)
                e.assume(z3.Implies(b.has_np, z3.Or(*[s.np_p for s in b.sides])))
                # distinct sides among claim rows too (they are no longer tied to the mailbox side slots)
                continue
            e.assume(z3.Implies(b.p, z3.Or(*[z3.And(s.p, s.opened) for s in b.sides])))          # I5
            e.assume(z3.Implies(b.has_np, z3.Or(*[z3.And(s.np_p, s.claimed) for s in b.sides]))) # I4
        e.assume(self.next_npid.z >= 1)

    def load_prestate(self, usage_rows=()):
        """replace the store content by the symbolic bundles; seal; switch to the step phase"""
        db = self.db
        for t in CHANNEL_TABLES:
            db.tables[t].rows = []
        for b in self.bundles:
            db.add_row("mailboxes", b.p, app_id=b.app, id=b.mid, updated=b.updated,
                       for_nameplate=z3.If(b.for_np, 1, 0))
            db.add_row("nameplates", b.has_np, id=b.npid, app_id=b.app, name=b.name, mailbox_id=b.mid)
            for s in b.sides:
                db.add_row("mailbox_sides", s.p, mailbox_id=b.mid, opened=z3.If(s.opened, 1, 0),
                           side=s.side, added=s.added, mood=("nullable", (s.mood_null, s.mood)))
                db.add_row("nameplate_sides", s.np_p, nameplates_id=b.npid,
                           claimed=z3.If(s.claimed, 1, 0), side=s.side, added=s.np_added)
            for m in b.msgs:
                db.add_row("messages", m.p, app_id=b.app, mailbox_id=b.mid, side=m.side,
                           phase=m.phase, body=m.body, server_rx=m.rx,
                           msg_id=("nullable", (m.id_null, m.msg_id)))
        db.tables["nameplates"].next_id = self.next_npid.z
        db.seal()
        if self.usage is not None:
            for t in self.usage.tables:
                if t != "version":
                    self.usage.tables[t].rows = []
            self.usage.seal()
        self.script.append(("load", db.snapshot(), self.usage.snapshot() if self.usage else None))
        self.phase = "step"
        self.clock = Clock(self)
        WS.time = self.clock
        TAP.time = self.clock
        for c in self.conns:
            c.frames = []
        self.pre = db.snapshot()
        self.pre_usage = self.usage.snapshot() if self.usage else None
        return self.pre

    def load_snapshot(self, snap, next_npid=None):
        """start from the committed content another run left behind (a crash state)"""
        db = self.db
        for t in CHANNEL_TABLES:
            db.tables[t].rows = [r.copy() for r in snap.tables[t]]
            db.tables[t].next_id = snap.next_id[t]
        db.seal()
        if self.usage is not None:
            for t in self.usage.tables:
                if t != "version":
                    self.usage.tables[t].rows = []
            self.usage.seal()
        self.script.append(("load", db.snapshot(), self.usage.snapshot() if self.usage else None))
        self.phase = "step"
        self.clock = Clock(self)
        WS.time = self.clock
        TAP.time = self.clock
        self.pre = db.snapshot()
        self.pre_usage = self.usage.snapshot() if self.usage else None
        return self.pre

    def snapshot(self):
        return self.db.snapshot()

    # ---- in-memory introspection (path-level, uses decisions) ----
    def subscribers(self, app, mid):
        """connections registered as listeners of the Mailbox object for (app, mid), if any"""
        ns = self.server._apps.get(app)
        if ns is None:
            return []
        mb = ns._mailboxes.get(mid)
        if mb is None:
            return []
        return list(mb._listeners.keys())


# =============================================================================================
# INV_DB as a formula over an arbitrary snapshot (used on post-states and crash states)
# =============================================================================================
def _rows(snap, t):
    return snap.tables[t]


def inv_db_clauses(snap):
    """dict clause-name -> z3 term.  PROPERTY clauses: uniq_*, fk_*, np_mailbox, msg_mailbox;
    SUPPORT clauses: np_has_claim, mb_has_open, np_side_in_mb."""
    mb, ms = _rows(snap, "mailboxes"), _rows(snap, "mailbox_sides")
    np_, ns = _rows(snap, "nameplates"), _rows(snap, "nameplate_sides")
    mg = _rows(snap, "messages")
    T = z3.BoolVal(True)
    c = {}

    def pairs(rows, eq):
        out = []
        for i in range(len(rows)):
            for j in range(i):
                out.append(z3.Not(z3.And(rows[i].p, rows[j].p, eq(rows[i], rows[j]))))
        return z3.And(*out) if out else T

    c["uniq_mailbox_id"] = pairs(mb, lambda a, b: a.v["id"] == b.v["id"])
    c["uniq_nameplate_name"] = pairs(np_, lambda a, b: z3.And(a.v["app_id"] == b.v["app_id"],
                                                             a.v["name"] == b.v["name"]))
    c["uniq_nameplate_id"] = pairs(np_, lambda a, b: a.v["id"] == b.v["id"])
    c["uniq_nameplate_mailbox"] = pairs(np_, lambda a, b: a.v["mailbox_id"] == b.v["mailbox_id"])
    c["uniq_nameplate_side"] = pairs(ns, lambda a, b: z3.And(a.v["nameplates_id"] == b.v["nameplates_id"],
                                                            a.v["side"] == b.v["side"]))
    c["uniq_mailbox_side"] = pairs(ms, lambda a, b: z3.And(a.v["mailbox_id"] == b.v["mailbox_id"],
                                                          a.v["side"] == b.v["side"]))
    nid = snap.next_id["nameplates"]
    c["npid_below_counter"] = z3.And(*[z3.Implies(r.p, z3.And(r.v["id"] >= 1, r.v["id"] < nid))
                                       for r in np_]) if np_ else T

    def exists(rows, pred):
        alts = [z3.And(r.p, pred(r)) for r in rows]
        return z3.Or(*alts) if alts else z3.BoolVal(False)

    def forall(rows, body):
        xs = [z3.Implies(r.p, body(r)) for r in rows]
        return z3.And(*xs) if xs else T

    c["np_mailbox"] = forall(np_, lambda r: exists(mb, lambda m: z3.And(
        m.v["id"] == r.v["mailbox_id"], m.v["app_id"] == r.v["app_id"], m.v["for_nameplate"] != 0)))
    c["fk_nameplate_side"] = forall(ns, lambda r: exists(np_, lambda n: n.v["id"] == r.v["nameplates_id"]))
    c["fk_mailbox_side"] = forall(ms, lambda r: exists(mb, lambda m: m.v["id"] == r.v["mailbox_id"]))
    c["msg_mailbox"] = forall(mg, lambda r: exists(mb, lambda m: z3.And(
        m.v["id"] == r.v["mailbox_id"], m.v["app_id"] == r.v["app_id"])))
    c["np_has_claim"] = forall(np_, lambda r: exists(ns, lambda s: z3.And(
        s.v["nameplates_id"] == r.v["id"], s.v["claimed"] != 0)))
    c["mb_has_open"] = forall(mb, lambda r: exists(ms, lambda s: z3.And(
        s.v["mailbox_id"] == r.v["id"], s.v["opened"] != 0)))
    c["np_has_side"] = forall(np_, lambda r: exists(ns, lambda s: s.v["nameplates_id"] == r.v["id"]))
    c["np_side_in_mb"] = forall(ns, lambda r: exists(np_, lambda n: z3.And(
        n.v["id"] == r.v["nameplates_id"],
        exists(ms, lambda s: z3.And(s.v["mailbox_id"] == n.v["mailbox_id"], s.v["side"] == r.v["side"])))))
    # columns the server reads without a NULL test (arithmetic on `updated`, truth of `claimed`/`opened`,
    # equality joins on the rest); nullable by design: mailbox_sides.mood, nameplates.request_id, messages.msg_id
    need = {"mailboxes": ("app_id", "id", "updated", "for_nameplate"),
            "nameplates": ("id", "app_id", "name", "mailbox_id"),
            "nameplate_sides": ("nameplates_id", "claimed", "side", "added"),
            "mailbox_sides": ("mailbox_id", "opened", "side", "added"),
            "messages": ("app_id", "mailbox_id", "side", "phase", "body", "server_rx")}
    c["cols_not_null"] = z3.And(*[forall(_rows(snap, t), lambda r, cs=cs: z3.And(*[z3.Not(r.n[k]) for k in cs if k in r.n]))
                                  for t, cs in need.items()])
    return c


PROPERTY_CLAUSES = ["uniq_mailbox_id", "uniq_nameplate_name", "uniq_nameplate_id",
                    "uniq_nameplate_mailbox", "uniq_nameplate_side", "uniq_mailbox_side",
                    "npid_below_counter", "np_mailbox", "fk_nameplate_side", "fk_mailbox_side",
                    "msg_mailbox"]
SUPPORT_CLAUSES = ["np_has_claim", "mb_has_open", "np_side_in_mb", "cols_not_null"]
# what every *committed* state satisfies, including the ones between the commits of one operation
CRASH_CLAUSES = PROPERTY_CLAUSES + ["np_has_side", "cols_not_null"]


def slot_unchanged(a, b):
    """pre slot a and post slot b (same position): identical presence and, if present, content"""
    eqs = [a.v[c] == b.v[c] for c in a.v] + [a.n[c] == b.n[c] for c in a.n]
    return z3.And(a.p == b.p, z3.Implies(a.p, z3.And(*eqs)))


def slot_same_content(a, b):
    return z3.And(*([a.v[c] == b.v[c] for c in a.v] + [a.n[c] == b.n[c] for c in a.n]))


def new_rows(pre, post, t):
    return post.tables[t][len(pre.tables[t]):]


def count(terms):
    return z3.Sum(*[z3.If(t, 1, 0) for t in terms]) if terms else z3.IntVal(0)
