#!/bin/bash
# run every registered check (quick by default) and summarise
tier=${1:-quick}
cd /verif
for p in $(.venv/bin/python -c "import json;print(' '.join(c['property_id'] for c in json.load(open('MANIFEST.json'))['checks']))"); do
  s=$(date +%s)
  ./check $p --tier $tier > /tmp/check_$p.log 2>&1
  rc=$?
  echo "$p rc=$rc $(( $(date +%s) - s ))s $(grep -c VIOLATION /tmp/check_$p.log) violations"
done
