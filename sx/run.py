"""Obligation runner: exhausts the decision tree of an obligation function, optionally sharded over
worker processes, decides every assertion on every path, and aggregates statistics."""
import os, sys, time, traceback, random
import multiprocessing as mp
import z3
from .engine import Engine, Abort, Inconclusive, Unsupported, conc, model_value

OBLIGATIONS = {}          # name -> callable(engine, **params) -> PathResult
_ALREADY_FAILED = {}      # per worker process: obligation -> assertion names with a counterexample in hand


def obligation(name):
    def deco(f):
        OBLIGATIONS[name] = f
        f.obligation_name = name
        return f
    return deco


class PathResult:
    """what an obligation function returns for one path"""

    def __init__(self, asserts, world=None, info=None, kf=None, replayer=None):
        self.replayer = replayer      # callable(Decoder) -> replay script, for obligations without a SymWorld
        self.asserts = asserts        # name -> z3 Bool term | python bool
        self.world = world            # SymWorld (for replay scripts), may be None
        self.info = info or {}
        self.kf = kf or []            # [(kf_id, z3 term)]: known-finding signatures valid on this path


def _term(x):
    if isinstance(x, bool):
        return z3.BoolVal(x)
    if hasattr(x, "z"):
        return x.z
    return x


NICE = os.environ.get("SX_NICE_MODELS", "1") == "1"
WITNESS_RATE = float(os.environ.get("SX_WITNESS_RATE", "0.02"))


def _want_witness(trace):
    import hashlib
    seed = os.environ.get("VERIF_SEED", "0")
    h = hashlib.sha256((seed + ":" + ",".join(map(str, trace))).encode()).digest()
    return int.from_bytes(h[:4], "big") / 2 ** 32 < WITNESS_RATE


def _explore_chunk(args):
    """worker: explore the subtree under each given prefix, at most `budget` paths; returns
    (records, leftover prefixes, stats, coverage)"""
    name, params, prefixes, budget, want = args
    fn = OBLIGATIONS[name]
    e = Engine()
    todo = list(prefixes)
    records = []
    cov = set()
    tracer = Coverage(cov)
    npaths = 0
    t0 = time.time()
    while todo and (npaths < budget):
        prefix = todo.pop()
        rec = dict(prefix=None, status="ok", failed=[], info=None)
        try:
            tracer.start()
            try:
                res, spawned = e.run_prefix(lambda eng: fn(eng, **params), prefix)
            finally:
                tracer.stop()
            todo.extend(spawned)
            if res is None:
                continue
            npaths += 1
            rec["prefix"] = list(e.trace)
            rec["info"] = res.info
            done = _ALREADY_FAILED.setdefault(name, set())
            names = [n for n in res.asserts if (want is None or n.startswith(tuple(want))) and n not in done]
            terms = {n: _term(res.asserts[n]) for n in names}
            if terms:
                allok = z3.And(*terms.values())
                m = e.check_cex(z3.Not(allok))
                if m is not None:
                    for n in names:
                        t = z3.simplify(terms[n])
                        if z3.is_true(t):
                            continue
                        extra = [z3.Not(t)]
                        for (kid, kterm) in res.kf:
                            kterm = _term(kterm)
                            if z3.is_false(z3.simplify(kterm)):
                                continue
                            # a violation that matches a known-finding signature is reported as such
                            mk = e.check_cex(z3.Not(t), kterm)
                            if mk is not None:
                                k = dict(assertion=n, kf=kid, prefix=list(e.trace))
                                if res.world is not None:
                                    from .real import concretise_script
                                    try:
                                        k["script"] = concretise_script(res.world, nicer_model(e, [z3.Not(t), kterm] + list(e.uf_axioms), mk))
                                    except Exception as ex2:     # noqa
                                        k["script_error"] = repr(ex2)
                                rec.setdefault("known", []).append(k)
                            extra.append(z3.Not(kterm))
                        m1 = e.check_cex(*extra)
                        if m1 is not None:
                            m1 = nicer_model(e, list(extra) + list(e.uf_axioms), m1)
                            cex = dict(assertion=n, prefix=list(e.trace))
                            if res.world is not None:
                                from .real import concretise_script
                                try:
                                    cex["script"] = concretise_script(res.world, m1)
                                except Exception as ex:     # noqa
                                    cex["script_error"] = repr(ex)
                            elif res.replayer is not None:
                                from .engine import two_pass
                                try:
                                    cex["script"] = two_pass(m1, res.replayer)
                                except Exception as ex:     # noqa
                                    cex["script_error"] = repr(ex)
                            rec["failed"].append(cex)
                            done.add(n)
            # witness for sampling / replay validation of passing paths
            if res.world is None and res.replayer is not None and not rec["failed"] and _want_witness(e.trace):
                from .engine import two_pass
                try:
                    wm0 = e.real_model()
                    if wm0 is not None:
                        rec["witness"] = two_pass(wm0, res.replayer)
                except Exception as ex:   # noqa
                    rec["witness_error"] = repr(ex)
            if res.world is not None and not rec["failed"] and _want_witness(e.trace):
                from .real import concretise_script
                wm0 = e.real_model()
                try:
                    if wm0 is not None:
                        wm = nicer_model(e, list(e.uf_axioms), wm0)
                        rec["witness"] = concretise_script(res.world, wm)
                except Exception as ex:   # noqa
                    rec["witness_error"] = repr(ex)
            if getattr(e, "hash_used", False):
                rec["soft_inconclusive"] = ("a native dict/set is keyed by symbolic client strings on this path "
                                            "(passes are not trusted; counterexamples are replayed)")
            records.append(rec)
        except Inconclusive as ex:
            rec["status"] = "inconclusive"
            rec["why"] = "%s: %s" % (type(ex).__name__, ex)
            rec["prefix"] = list(getattr(e, "trace", []))
            rec["tb"] = traceback.format_exc(limit=8)
            records.append(rec)
        except Exception as ex:
            rec["status"] = "harness-error"
            rec["why"] = "%s: %s" % (type(ex).__name__, ex)
            rec["prefix"] = list(getattr(e, "trace", []))
            rec["tb"] = traceback.format_exc(limit=12)
            records.append(rec)
    return records, todo, e.stats, cov, time.time() - t0


def nicer_model(e, extra, m):
    """try to get a model with integral clock values / timestamps (replays use floats)"""
    if not NICE:
        return m
    try:
        reals = set()
        for d in m.decls():
            if d.arity() == 0 and d.range() == z3.RealSort() and d.name() not in e.str_vars:
                reals.add(d())
        if not reals:
            return m
        cons = [z3.ToReal(z3.ToInt(r)) == r for r in reals]
        e.solver.push()
        e.solver.add(*extra)
        e.solver.add(*cons)
        e.solver.set("timeout", 10000)
        r = e.solver.check()
        m2 = e.solver.model() if r == z3.sat else None
        e.solver.pop()
        from .engine import CHECK_TIMEOUT_MS
        e.solver.set("timeout", CHECK_TIMEOUT_MS)
        return m2 or m
    except z3.Z3Exception:
        return m


class Coverage:
    """which lines of /repo/src were executed (sys.monitoring, each location reported once)"""
    ROOT = "/repo/src/wormhole_mailbox_server"
    TOOL = 3
    installed = None

    def __init__(self, cov):
        self.cov = cov
        if os.environ.get("SX_COVERAGE", "1") != "1":
            return
        mon = sys.monitoring
        if Coverage.installed is None:
            try:
                mon.use_tool_id(self.TOOL, "sx-coverage")
            except ValueError:
                pass
            mon.register_callback(self.TOOL, mon.events.LINE, Coverage._line)
            mon.set_events(self.TOOL, mon.events.LINE)
            Coverage.installed = set()
        Coverage.sink = cov
        cov |= Coverage.installed

    @staticmethod
    def _line(code, lineno):
        fn = code.co_filename
        if fn.startswith(Coverage.ROOT) and "/test/" not in fn:
            item = (os.path.basename(fn), code.co_name, lineno)
            Coverage.installed.add(item)
            Coverage.sink.add(item)
        return sys.monitoring.DISABLE

    def start(self):
        pass

    def stop(self):
        pass


class Outcome:
    def __init__(self, name):
        self.name = name
        self.paths = 0
        self.records = []
        self.failed = []
        self.known = []
        self.inconclusive = []
        self.errors = []
        self.stats = dict(paths=0, infeasible=0, decisions=0, solver_queries=0, solver_s=0.0, choices=0)
        self.cov = set()
        self.wall = 0.0
        self.witnesses = []
        self.infos = []
        self.soft = []

    def absorb(self, records, stats, cov):
        for k, v in stats.items():
            self.stats[k] = self.stats.get(k, 0) + v
        self.cov |= cov
        for r in records:
            if r["status"] == "inconclusive":
                self.inconclusive.append(r)
            elif r["status"] == "harness-error":
                self.errors.append(r)
            else:
                self.paths += 1
                if r.get("soft_inconclusive"):
                    self.soft.append(r["soft_inconclusive"])
                self.failed.extend(r["failed"])
                self.known.extend(r.get("known", []))
                if "witness" in r:
                    self.witnesses.append(r["witness"])
                if r.get("info"):
                    self.infos.append(r["info"])


def run_obligation(name, params=None, jobs=None, want=None, cap_s=None, chunk=24, stop_on_fail=True):
    """exhaust one obligation.  Returns Outcome."""
    params = params or {}
    jobs = jobs or int(os.environ.get("SX_JOBS", str(min(16, os.cpu_count() or 1))))
    out = Outcome(name)
    t0 = time.time()
    cap_s = cap_s or float(os.environ.get("SX_OBLIGATION_CAP_S", "3000"))
    if jobs <= 1:
        todo = [[]]
        while todo:
            recs, todo, stats, cov, _ = _explore_chunk((name, params, todo, 10 ** 9, want))
            out.absorb(recs, stats, cov)
        out.wall = time.time() - t0
        return out
    # seed phase: a short serial run to collect prefixes
    recs, todo, stats, cov, _ = _explore_chunk((name, params, [[]], 4, want))
    out.absorb(recs, stats, cov)
    ctx = mp.get_context("fork")
    with ctx.Pool(jobs) as pool:
        pending = []
        def submit(prefixes):
            pending.append(pool.apply_async(_explore_chunk, ((name, params, prefixes, chunk, want),)))
        # hand out one prefix per task initially
        for p in todo:
            submit([p])
        todo = []
        while pending:
            done = [p for p in pending if p.ready()]
            if not done:
                time.sleep(0.01)
                if time.time() - t0 > cap_s:
                    pool.terminate()
                    out.inconclusive.append(dict(status="inconclusive", why="obligation cap %.0fs exceeded" % cap_s,
                                                 prefix=None))
                    break
                continue
            for p in done:
                pending.remove(p)
                recs, left, stats, cov, _ = p.get()
                out.absorb(recs, stats, cov)
                # split leftovers so idle workers get something
                if left:
                    if len(pending) < jobs:
                        for q in left:
                            submit([q])
                    else:
                        submit(left)
            if stop_on_fail and (out.failed and False):
                break
    out.wall = time.time() - t0
    return out
