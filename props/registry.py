"""Which obligations decide which property, with which assertions."""
from . import steps, sweep, kernels, product, dbfiles, alloc_kernel, crash

OPS = ["step.bind", "step.list", "step.allocate", "step.claim", "step.release", "step.open", "step.add",
       "step.close", "step.disconnect"]


def all_ops(tier, want, usage=False, skip=(), sweep_too=True):
    out = [dict(ob=o, params=dict(tier=tier, usage=usage), want=want) for o in OPS if o not in skip]
    if sweep_too:
        out.append(dict(ob="sweep.step", params=dict(tier=tier, usage=usage), want=want))
    return out


STEP_BOUNDS = lambda tier: dict(
    bundles=3 if tier == "thorough" else 2, side_slots_per_bundle="2 (+1 crowd slot in bundle 0)",
    messages_per_bundle=2 if tier == "thorough" else 1,
    connections="acting connection + at most one other subscribed connection",
    strings="arbitrary strings up to their order/equality pattern (order-embedded into the rationals, the empty string included); code that looks inside a string is outside the fragment (inconclusive)", timestamps="arbitrary non-negative reals",
    outside="states with more rows than the bound; non-string JSON values; float rounding of times")

STEP_ASSUME = [
    "pre-state = arbitrary bundle-shaped store satisfying INV_DB (uniqueness, FK shape, >=1 open side per "
    "mailbox, >=1 claimed side per nameplate); INV is re-established by every operation (INV.* assertions)",
    "sqlite3 replaced by RelStore (catalog parsed from db-schemas/*.sql on every run; immediate FK and PK "
    "enforcement; commit log); validated by replaying witnesses and every counterexample on real sqlite3",
    "time.time -> fresh non-decreasing reals; generate_mailbox_id -> fresh id distinct from every stored or "
    "remembered id; random.choice -> any element; twisted log -> no-op; JSON framing -> identity",
    "known finding KF-D6 (mailbox id stored under another app) excluded by signature and reported separately",
]


def P(explanation, tasks, bounds=STEP_BOUNDS, assumptions=STEP_ASSUME, level="model_checking"):
    return dict(explanation=explanation, tasks=tasks, bounds=bounds, assumptions=assumptions, level=level)


PROPS = {}


def restart_tasks(tier, matrix):
    return [dict(ob="prod.restart", params=dict(tier=tier, ops=ops, histories=hs), want=["C11."]) for hs, ops in matrix]




def db_task(ob, params, want):
    return dict(ob=ob, params=params, want=want, witness_rate=1.0, max_witness=6, jobs=4)


def usage_ops_late(tier, mode, want):
    return usage_ops(tier, mode, want)

PROPS["C01"] = P(
    "step(add) stores exactly one row and commits before fan-out; step(open) replays exactly the stored "
    "messages of (app, mailbox id); every operation changes a message slot only by deleting it together "
    "with its mailbox row and all messages of that mailbox; INV.msg_mailbox (no message outlives its mailbox); "
    "MEM.M4/M5 (no connection keeps a handle to a deleted mailbox through which it could still store)",
    lambda tier: all_ops(tier, ["C01.", "INV.msg_mailbox", "INV.uniq_mailbox_id", "MEM.M4", "MEM.M5"]) +
                 restart_tasks(tier, [(["open_add", "open_add_sweep", "open_close_other"], ["open", "openadd"]),
                                      (["any2", "any2_sweep"] + (["any3"] if tier == "thorough" else []), ["open", "openadd"])]))

PROPS["C02"] = P(
    "step(add) with other connections in arbitrary subscription states: one message frame per subscribed "
    "connection (adder included), none elsewhere, fields = bound side + command fields; INV_MEM (one "
    "registry object per app / mailbox, listener sets = listening connections) preserved by every operation",
    lambda tier: all_ops(tier, ["C02.", "MEM."]) +
                 restart_tasks(tier, [(["open_add", "open_add_sweep", "claim"], ["openadd"]),
                                      (["any2", "any2_sweep"] + (["any3"] if tier == "thorough" else []), ["openadd"])]))

PROPS["C03"] = P(
    "step(claim): answer = stored mailbox id of (app, name) or the freshly generated one; nameplate rows "
    "never change except by deletion; uniqueness invariants preserved by every operation",
    lambda tier: all_ops(tier, ["C03.", "INV.uniq_", "INV.np_mailbox", "INV.npid_below_counter"]) +
                 restart_tasks(tier, [(["alloc", "claim"], ["claim", "allocate"]), (["alloc_sweep_claim"], ["claim"]),
                                      (["claim_list_open_close", "claim_list_release"], ["claim"]),
                                      (["any2", "any2_sweep"] + (["any3"] if tier == "thorough" else []), ["claim", "allocate"])]))

PROPS["C05"] = P(
    "step(open|claim|close-that-opens) on a mailbox that already has two other side rows: exactly "
    "`error: crowded`, no message frame, no subscription, rows of the first two untouched; side rows vanish "
    "only with their mailbox/nameplate; message frames only reach subscribed connections",
    lambda tier: all_ops(tier, ["C05.", "INV.uniq_mailbox_side", "INV.uniq_nameplate_side"]))

PROPS["C07"] = P(
    "step(release) clears only (nameplate, side) and deletes the nameplate with its last claim, always "
    "`released`; claim by a side that released => `reclaimed`, store unchanged; list = names of the app; a "
    "claim flag of another (nameplate, side) changes in no operation except by deletion with its own mailbox",
    lambda tier: all_ops(tier, ["C07.", "INV.np_has_claim", "INV.fk_nameplate_side"]) +
                 restart_tasks(tier, [(["claim_list_open_close", "claim_list_release"], ["list", "allocate", "claim"]),
                                      (["any2", "any2_sweep"] + (["any3"] if tier == "thorough" else []), ["list", "claim", "release"])]))

PROPS["C08"] = P(
    "step(close) from every INV pre-state (handle present or re-sent on a fresh connection, nameplate "
    "released or not, other side open or not): no exception, `closed`, exact deletion set in one commit, "
    "other bundles untouched, the other side's subscription kept",
    lambda tier: all_ops(tier, ["C08.", "INV.mb_has_open", "INV.fk_mailbox_side"]) +
                 restart_tasks(tier, [(["open_add", "open_close_other"], ["close"])]))

PROPS["C09"] = P(
    "at every transport send in every step of every operation both stores have no open transaction, and "
    "every operation ends clean on every path (with and without usage store); the usage summaries called "
    "between the deletes and the commits are total functions of 0..4 side rows (a raise there would leave "
    "the transaction open)",
    lambda tier: all_ops(tier, ["C09."]) +
                 (all_ops(tier, ["C09."], usage="plain") if tier == "thorough" else usage_ops_late(tier, "plain", ["C09."])) +
                 [db_task("db.create_crash", dict(name=n, entry="upgrade"), ["C09.pragmas"]) for n in ("channel", "usage")] +
                 # a usage summary that raised would leave the deletes before it uncommitted: the real
                 # summary functions are total on 1..4 (0..4) side rows of any content
                 [dict(ob="kernel.summarize_mailbox", params=dict(n=n), want=["C09."])
                  for n in ((0, 1, 2, 3, 4) if tier == "thorough" else (0, 1, 2, 3))] +
                 [dict(ob="kernel.summarize_nameplate", params=dict(n=n), want=["C09."]) for n in (1, 2, 3, 4)])

PROPS["C17"] = P(
    "arbitrary JSON object (symbolic key presence, symbolic string values, two junk keys) on a connection in "
    "an arbitrary protocol state: welcome/ack/error discipline against a reference table written from "
    "docs/server-protocol.md, store unchanged on protocol errors, no exception escapes any handler",
    lambda tier: [dict(ob="step.any", params=dict(tier=tier), want=["C17.", "C09."]),
                  dict(ob="step.welcome", params=dict(tier=tier), want=["C17."])] + all_ops(tier, ["C17."]))


PROPS["C12"] = P(
    "the real expire() closure (from the real makeService: real constants, real TimerService period) fired on "
    "an arbitrary INV pre-state with connections in arbitrary subscription states: every bundle with "
    "updated > now - CHANNEL_EXPIRATION_TIME or with a subscriber is unchanged (subscribed: updated := now); "
    "claim/open/add stamp updated := when; operations aimed at one mailbox leave the others untouched; every "
    "operation keeps 'has a mailbox handle <=> is registered as its subscriber' (MEM.M4/M5: what the sweep "
    "relies on to know the subscribers); "
    "E > P and timer period == P read back from the service",
    lambda tier: [dict(ob="sweep.step", params=dict(tier=tier), want=["C12.", "MEM."])] +
                 all_ops(tier, ["C12.", "MEM.M4", "MEM.M5"],
                         skip=("step.bind", "step.list", "step.disconnect", "step.release", "step.allocate"),
                         sweep_too=False))

PROPS["C13"] = P(
    "expire() deletes every bundle with no subscriber and updated <= now - E completely, in every app, logs "
    "no internal error; with no connections and everything old all five tables are empty; a transient "
    "OperationalError on the first store access escapes nothing and the next sweep completes the job; no "
    "operation leaves a message without its mailbox (INV.msg_mailbox) or a stale handle (MEM.M4)",
    lambda tier: [dict(ob="sweep.step", params=dict(tier=tier), want=["C13.", "INV.", "MEM."]),
                  dict(ob="sweep.step", params=dict(tier=tier, usage="plain"), want=["C13."]),
                  dict(ob="sweep.fault", params=dict(tier=tier, k=0), want=["C13."])] +
                 ([dict(ob="sweep.fault", params=dict(tier=tier, k=k), want=["C13."]) for k in range(1, 12)]
                  if tier == "thorough" else []) +
                 all_ops(tier, ["INV.msg_mailbox", "MEM.M4", "MEM.M5"], sweep_too=False))


def usage_ops(tier, mode, want):
    return [dict(ob="step.release", params=dict(tier=tier, usage=mode), want=want),
            dict(ob="step.close", params=dict(tier=tier, usage=mode, crowd=0 if tier == "quick" else 1), want=want),
            dict(ob="step.bind", params=dict(tier=tier, usage=mode), want=want),
            dict(ob="sweep.step", params=dict(tier=tier, usage=mode, others=["none", "sub0s0"]), want=want)]


PROPS["C15"] = P(
    "with a usage store: the new usage rows of release / close / sweep correspond one-to-one to the "
    "nameplates and mailboxes deleted by that operation (same app, fields = reference formulas over the "
    "deleted object's side rows); no other operation writes a record; the real _summarize_* functions "
    "agree with the documented precedence for 1..3 (thorough: 4) side rows, any moods, pruned or not; the "
    "`current` row written by expire() counts the listening connections",
    lambda tier: usage_ops(tier, "plain", ["C15."]) +
                 [dict(ob=o, params=dict(tier=tier, usage="plain"), want=["C15."])
                  for o in ("step.open", "step.add", "step.claim", "step.list", "step.disconnect")] +
                 [dict(ob="kernel.summarize_mailbox", params=dict(n=n), want=["C15."])
                  for n in ((0, 1, 2, 3, 4) if tier == "thorough" else (0, 1, 2, 3))] +
                 [dict(ob="kernel.summarize_nameplate", params=dict(n=n), want=["C15."]) for n in (1, 2, 3, 4)] +
                 # the record's fields under a configured blur interval (the start time is the only one it may change)
                 [dict(ob="kernel.summarize_mailbox", params=dict(n=2, blur="sym"), want=["C15."]),
                  dict(ob="kernel.summarize_nameplate", params=dict(n=2, blur="sym"), want=["C15."])])

PROPS["C16"] = P(
    "symbolic blur interval B in [1, 86400]: every start / connect time written by release, close, sweep and "
    "bind is exactly the code's expression B*(t//B) applied to the true arrival time t (symbolic*symbolic "
    "arithmetic abstracted by uninterpreted functions, so these queries stay linear), and the kernel "
    "obligations decide with exact integer/real semantics that this expression is a multiple of B with "
    "v <= t < v+B at each of the three sites that apply it",
    lambda tier: usage_ops(tier, "blur", ["C16."]) +
                 [dict(ob="kernel.blur", params=dict(site=s_), want=["C16."]) for s_ in ("nameplate", "mailbox", "bind")] +
                 [dict(ob="sweep.step", params=dict(tier=tier, relaxed=True, usage="blur", others=["none"]), want=["C16."]),
                  dict(ob="kernel.summarize_mailbox", params=dict(n=0, blur="sym"), want=["C16."]),
                  dict(ob="kernel.summarize_mailbox", params=dict(n=2, blur="sym"), want=["C16."]),
                  dict(ob="kernel.summarize_nameplate", params=dict(n=2, blur="sym"), want=["C16."])])


PROPS["C06"] = P(
    "unwinding conditions for non-interference between apps: (local respect) every operation of app A, and "
    "the sweep per bundle, leaves every row owned by another app unchanged; (output consistency) two-run "
    "product: same rows for the acting app, two independent arbitrary populations for the other apps, same "
    "command -> identical frames on the app's connections and identical rows for the app",
    lambda tier: [dict(ob="prod.isolation", params=dict(tier=tier), want=["C06."])] + all_ops(tier, ["C06."]) +
                 restart_tasks(tier, [(["list_other_app"], ["list", "allocate", "claim"])]))

RESTART_ALL = lambda tier: [
    (["open_add", "claim", "open_close_other"], ["list", "allocate", "claim", "release", "open", "close", "sweep", "openadd"]),
    (["alloc"], ["claim", "allocate", "list", "release"]),
    (["open_add_sweep"], ["open", "claim", "list", "openadd"]),
    (["open_add_livesweep"], ["sweep", "open"]),
    (["alloc_sweep_claim"], ["claim", "allocate"] if tier == "thorough" else ["claim"]),
    (["claim_list_open_close", "claim_list_release"], ["list", "allocate", "claim", "open"]),
    (["list_other_app"], ["list", "allocate", "claim"]),
] + ([(["alloc_claim"], ["allocate", "claim"])] if tier == "thorough" else []) + [      # (quick: only in C04's own check)
    # generic sessions from the empty store: every 2-command (thorough: 3-command) session of one connection,
    # optionally followed by a long silence and a sweep, then every command from a reconnecting client
    (["any2", "any2_sweep"] + (["any3", "any3_sweep"] if tier == "thorough" else []), None),
]

PROPS["C11"] = P(
    "two-run product: an arbitrary INV state, then a short real history by connections that come and go "
    "(open+add, allocate, claim, open+add+close, optionally followed by a long silence and a sweep or by a sweep "
    "while the client is still subscribed, optionally "
    "followed by another side claiming the expired nameplate), then every connection is dropped; run X keeps "
    "the server object with whatever it accumulated in memory, run Y rebuilds it from the store; the same "
    "command from a reconnecting client (any app/side, in particular the ones used before the cut) yields "
    "identical frames, identical store and identical per-connection state",
    lambda tier: restart_tasks(tier, RESTART_ALL(tier)))

PROPS["C14"] = P(
    "two-run product: cmd on c1 vs. cmd on c1 followed by the same cmd from a fresh connection of the same "
    "(app, side) at the same instant, for every successfully answered claim / release / open / close from "
    "every INV pre-state: same answer, equal channel store (multiset of rows, timestamps included), no frame "
    "to any original connection, original subscriptions unchanged",
    lambda tier: [dict(ob="prod.resend", params=dict(tier=tier), want=["C14."])])

PROPS["C18"] = P(
    "two-run product over configurations on a shared pre-state, command and environment: (listing allowed, "
    "no usage store, no blur) vs. (listing disallowed, usage store, symbolic blur) [thorough: all five other "
    "combinations]: identical frames except the payload of `nameplates`, identical channel store, identical "
    "subscriptions; step(list): exactly the app's names when allowed, [] when disallowed, store unchanged",
    lambda tier: restart_tasks(tier, [(["claim_list_open_close", "claim_list_release"], ["list", "allocate"])]) +
                 [dict(ob="prod.config", params=dict(tier=tier), want=["C18."]),
                  dict(ob="step.list", params=dict(tier=tier), want=["C18."]),
                  dict(ob="step.list", params=dict(tier=tier, usage="blur"), want=["C18."])])


DB_BOUNDS = lambda tier: dict(
    crash_points="every numbered environment event (os.path.exists, mkstemp, os.close, rename, shutil.copy in "
                 "three stages, sqlite3.connect, each SQL statement, each commit) of the real entry point",
    rows="2 symbolic rows per table (3 in thorough), every column nullable, presence symbolic; version symbolic Int",
    outside="SQLite's reaction to arbitrary bytes / truncated files beyond 'not a database' and 'empty file'; "
            "page-level durability; byte-for-byte equality is modelled as 'no commit reached the file and the "
            "directory listing is unchanged' and confirmed on real files for replayed scenarios")
DB_ASSUME = [
    "file-system model: POSIX rename atomic; sqlite3.connect creates an empty file if absent; a crash inside "
    "shutil.copy leaves a partial (non-database) destination; SQLite commits are atomic",
    "sqlite3 connections are RelStores bound to a file (committed snapshot persisted at every commit; Python's "
    "executescript contract: implicit COMMIT first, then autocommit per statement unless the script brackets itself)",
    "validated on every run: witnesses and every counterexample are replayed on the real file system with real "
    "sqlite3 through a shim that numbers the same events; the real event sequence must equal the model's",
]


PROPS["C19"] = P(
    "the real _get_db / create_*_db / create_or_upgrade_*_db / open_existing_db on the file-system model: a "
    "crash at every event of first-time creation leaves nothing (or a complete database) at the path and the "
    "next start succeeds with the full catalog and version row; an existing current-version database is "
    "opened with PRAGMAs and SELECTs only and keeps every (symbolic) row; a newer version, a non-database and "
    "an empty file are rejected without any commit or file-system change; create-only entry points raise "
    "DBAlreadyExists and the open-only one DBDoesntExist before any connect",
    lambda tier: [db_task("db.create_crash", dict(name=n, entry=en), ["C19."])
                  for n in ("channel", "usage") for en in ("get", "create", "upgrade")] +
                 [db_task("db.open_existing", dict(name=n, kind=k), ["C19."])
                  for n in ("channel", "usage") for k in ("current", "newer", "junk", "empty")] +
                 [db_task("db.refuse", dict(which=w_), ["C19."]) for w_ in ("create_existing", "open_missing")],
    bounds=DB_BOUNDS, assumptions=DB_ASSUME)

PROPS["C20"] = P(
    "usage v1 store with arbitrary symbolic rows opened by the real _get_db(.., 'usage', 2): backup equals the "
    "original and is complete before the first upgrade commit; final catalog == catalog of a fresh v2 store; "
    "every original row intact; for a crash at every event no row is lost and a second _get_db completes the "
    "upgrade",
    lambda tier: [db_task("db.upgrade", dict(rows=3 if tier == "thorough" else 2), ["C20."])],
    bounds=DB_BOUNDS, assumptions=DB_ASSUME)

PROPS["C04"] = P(
    "allocator kernel translated from the AST of _find_available_nameplate_id (read from /repo on every run): for "
    "every in-use set (inuse: Int -> Bool), every random outcome and both listing settings the answer is a "
    "positive decimal, not in use, of the shortest available length among 1-3 digits (4-6 only when all 999 "
    "are taken), ValueError only after 1000 in-use draws; step(allocate) through the real handler: the "
    "answer is committed as a nameplate row with a claimed side row before `allocated` is sent, and "
    "_did_allocate blocks a second allocate",
    lambda tier: [dict(ob="kernel.allocator", fn=alloc_kernel.run, params={}, want=[]),
                  dict(ob="step.allocate", params=dict(tier=tier), want=["C04.", "INV.uniq_nameplate_name"]),
                  dict(ob="step.any", params=dict(tier=tier, types=["allocate"]), want=["C17.proto_error", "C17.no_spurious_error"]),
                  dict(ob="prod.restart", params=dict(tier=tier, ops=["allocate"], histories=["alloc_claim", "alloc", "claim_list_release"]),
                       want=["C04.", "C11."])],
    bounds=lambda tier: dict(kernel="all 999 short ids and 1000 random draws, unbounded in-use set (uninterpreted predicate)",
                             step=STEP_BOUNDS(tier)),
    assumptions=STEP_ASSUME + ["'%d' % i is injective and canonical (Dec(e) equality is integer equality); "
                               "_get_nameplate_ids is the in-use set (executed for real in step.allocate / step.list)",
                               "translator validated on 40 (thorough: 200) concrete in-use sets against the real function"])
PROPS["C04"]["technique"] = ("AST if-conversion of the allocator into one SMT query per post-condition (z3), plus symbolic "
                             "execution of the real allocate handler; counterexamples replayed on the real function")


PROPS["C10"] = P(
    "(1) every committed snapshot inside every operation (the states a kill -9 can leave) has no foreign-key "
    "violation, no duplicate nameplate / mailbox / side record and no NULL in a column the server reads without a "
    "NULL test (C10.crash_inv, all operations, with and "
    "without usage store); (2) from every crash-shaped pre-state (INV without the between-commit clauses: a "
    "mailbox may lack side rows, a claim row may lack its mailbox side row, no open / claimed side required) "
    "the restarted server's expire() raises and logs nothing and deletes everything old, with and without "
    "usage store; (3) for every committed snapshot of claim / release / open / close the same command re-sent "
    "on a fresh connection at the same instant gets the same answer and the same final store as the "
    "uncrashed run",
    lambda tier: all_ops(tier, ["C10."]) +
                 (all_ops(tier, ["C10."], usage="plain", sweep_too=False,
                          skip=("step.bind", "step.list", "step.disconnect", "step.add", "step.open"))
                  if tier == "thorough" else []) +
                 [dict(ob="sweep.step", params=dict(tier=tier, relaxed=True, others=["none", "sub0s0"]), want=["C10."]),
                  dict(ob="sweep.step", params=dict(tier=tier, relaxed=True, usage="plain", others=["none"]), want=["C10."]),
                  dict(ob="crash.resume", params=dict(tier=tier), want=["C10."])])
