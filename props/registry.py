"""Which obligations decide which property, with which assertions."""
from . import steps

OPS = ["step.bind", "step.list", "step.allocate", "step.claim", "step.release", "step.open", "step.add",
       "step.close", "step.disconnect"]


def all_ops(tier, want, usage=False, skip=()):
    return [dict(ob=o, params=dict(tier=tier, usage=usage), want=want) for o in OPS if o not in skip]


STEP_BOUNDS = lambda tier: dict(
    bundles=3 if tier == "thorough" else 2, side_slots_per_bundle="2 (+1 crowd slot in bundle 0)",
    messages_per_bundle=2 if tier == "thorough" else 1,
    connections="acting connection + at most one other subscribed connection",
    strings="unbounded z3 strings", timestamps="arbitrary non-negative reals",
    outside="states with more rows than the bound; non-string JSON values; float rounding of times")

STEP_ASSUME = [
    "pre-state = arbitrary bundle-shaped store satisfying INV_DB (uniqueness, FK shape, >=1 open side per "
    "mailbox, >=1 claimed side per nameplate); INV is re-established by every operation (INV.* assertions)",
    "sqlite3 replaced by RelStore (catalog parsed from db-schemas/*.sql on every run; immediate FK and PK "
    "enforcement; commit log); validated by replaying witnesses and every counterexample on real sqlite3",
    "time.time -> fresh non-decreasing reals; generate_mailbox_id -> fresh id distinct from every stored or "
    "remembered id; random.choice -> any element; twisted log -> no-op; JSON framing -> identity",
    "known finding KF-D6 (mailbox id stored under another app) excluded by signature and reported separately",
]


def P(explanation, tasks, bounds=STEP_BOUNDS, assumptions=STEP_ASSUME, level="model_checking"):
    return dict(explanation=explanation, tasks=tasks, bounds=bounds, assumptions=assumptions, level=level)


PROPS = {}

PROPS["C01"] = P(
    "step(add) stores exactly one row and commits before fan-out; step(open) replays exactly the stored "
    "messages of (app, mailbox id); every operation changes a message slot only by deleting it together "
    "with its mailbox row and all messages of that mailbox; INV.msg_mailbox (no message outlives its mailbox)",
    lambda tier: all_ops(tier, ["C01.", "INV.msg_mailbox", "INV.uniq_mailbox_id"]))

PROPS["C02"] = P(
    "step(add) with other connections in arbitrary subscription states: one message frame per subscribed "
    "connection (adder included), none elsewhere, fields = bound side + command fields; INV_MEM (one "
    "registry object per app / mailbox, listener sets = listening connections) preserved by every operation",
    lambda tier: all_ops(tier, ["C02.", "MEM."]))

PROPS["C03"] = P(
    "step(claim): answer = stored mailbox id of (app, name) or the freshly generated one; nameplate rows "
    "never change except by deletion; uniqueness invariants preserved by every operation",
    lambda tier: all_ops(tier, ["C03.", "INV.uniq_", "INV.np_mailbox", "INV.npid_below_counter"]))

PROPS["C05"] = P(
    "step(open|claim|close-that-opens) on a mailbox that already has two other side rows: exactly "
    "`error: crowded`, no message frame, no subscription, rows of the first two untouched; side rows vanish "
    "only with their mailbox/nameplate; message frames only reach subscribed connections",
    lambda tier: all_ops(tier, ["C05.", "INV.uniq_mailbox_side", "INV.uniq_nameplate_side"]))

PROPS["C07"] = P(
    "step(release) clears only (nameplate, side) and deletes the nameplate with its last claim, always "
    "`released`; claim by a side that released => `reclaimed`, store unchanged; list = names of the app; a "
    "claim flag of another (nameplate, side) changes in no operation except by deletion with its own mailbox",
    lambda tier: all_ops(tier, ["C07.", "INV.np_has_claim", "INV.fk_nameplate_side"]))

PROPS["C08"] = P(
    "step(close) from every INV pre-state (handle present or re-sent on a fresh connection, nameplate "
    "released or not, other side open or not): no exception, `closed`, exact deletion set in one commit, "
    "other bundles untouched, the other side's subscription kept",
    lambda tier: all_ops(tier, ["C08.", "INV.mb_has_open", "INV.fk_mailbox_side"]))

PROPS["C09"] = P(
    "at every transport send in every step of every operation both stores have no open transaction, and "
    "every operation ends clean on every path (with and without usage store)",
    lambda tier: all_ops(tier, ["C09."]) + all_ops(tier, ["C09."], usage=True))

PROPS["C17"] = P(
    "arbitrary JSON object (symbolic key presence, symbolic string values, two junk keys) on a connection in "
    "an arbitrary protocol state: welcome/ack/error discipline against a reference table written from "
    "docs/server-protocol.md, store unchanged on protocol errors, no exception escapes any handler",
    lambda tier: [dict(ob="step.any", params=dict(tier=tier), want=["C17.", "C09."])] + all_ops(tier, ["C17."]))
