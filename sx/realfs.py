"""Replay of a database.py scenario on the REAL file system with REAL sqlite3, with a crash injected
at the same numbered event as in the model (sx.fsmodel).  The shim wraps what database.py imports
(os, tempfile, shutil, sqlite3) and ticks the same event kinds in the same order; at the crash event
every real connection is abandoned without commit (what a kill -9 leaves, given SQLite's atomic
commit) and the real files are inspected, then the entry point is run again."""
import os, sys, shutil, sqlite3, tempfile, json
import wormhole_mailbox_server.database as DBM
from .relstore import split_script
from .fsmodel import Crash


def real_split(script):
    """split a script into statements without touching their text (comments stay, as in sqlite_master)"""
    out, buf = [], ""
    for line in script.splitlines(True):
        buf += line
        if sqlite3.complete_statement(buf):
            if split_script(buf):
                out.append(buf)
            buf = ""
    if split_script(buf):
        out.append(buf)
    return out


class RealConn:
    def __init__(self, shim, path):
        self.shim, self.path = shim, path
        self.real = sqlite3.connect(path)
        self.explicit = False
        shim.conns.append(self)

    @property
    def row_factory(self):
        return self.real.row_factory

    @row_factory.setter
    def row_factory(self, f):
        self.real.row_factory = f

    def execute(self, sql, params=()):
        self.shim.tick("sql")
        return self.real.execute(sql, params)

    def commit(self):
        if self.real.in_transaction:
            self.real.commit()
            self.shim.tick("committed")

    def executescript(self, script):
        if self.real.in_transaction:
            self.real.commit()
            self.shim.tick("committed")
        iso = self.real.isolation_level
        self.real.isolation_level = None          # autocommit, exactly what executescript does
        try:
            for st in real_split(script):
                self.shim.tick("sql")
                word = split_script(st)[0].split()[0].upper()
                self.real.execute(st)
                if word == "BEGIN":
                    self.explicit = True
                elif word in ("COMMIT", "END"):
                    self.explicit = False
                    self.shim.tick("committed")
                elif not self.explicit and word in ("CREATE", "INSERT", "UPDATE", "DELETE", "DROP", "ALTER"):
                    self.shim.tick("committed")
        finally:
            if not self.real.in_transaction:
                self.real.isolation_level = iso

    def close(self):
        self.real.close()
        self.shim.tick("close-db")

    def __enter__(self):
        return self

    def __exit__(self, et, ev, tb):
        if et is None:
            self.commit()
        elif issubclass(et, Exception):
            self.real.rollback()
        return False

    def cursor(self):
        conn = self

        class _Cur:
            def __init__(self_):
                self_._c = None
                self_.lastrowid, self_.rowcount = None, -1

            def execute(self_, sql, params=()):
                self_._c = conn.execute(sql, params)
                self_.lastrowid, self_.rowcount = self_._c.lastrowid, self_._c.rowcount
                return self_

            def executescript(self_, script):
                conn.executescript(script)
                return self_

            def fetchone(self_):
                return self_._c.fetchone()

            def fetchall(self_):
                return self_._c.fetchall()

            def __iter__(self_):
                return iter(self_._c)

            def close(self_):
                pass
        return _Cur()

    def __getattr__(self, n):
        return getattr(self.real, n)


class Shim:
    def __init__(self, crash_at=None):
        self.n = 0
        self.crash_at = crash_at
        self.conns = []
        self.kinds = []

    def tick(self, kind):
        i = self.n
        self.n += 1
        self.kinds.append(kind)
        if self.crash_at is not None and i == self.crash_at:
            raise Crash()

    def install(self):
        shim = self

        class _Path:
            def exists(self, p):
                shim.tick("exists")
                return os.path.exists(p)

            def isfile(self, p):
                shim.tick("exists")
                return os.path.isfile(p)

            def __getattr__(self, name):
                return getattr(os.path, name)

        class _OS:
            path = _Path()

            def rename(self, a, b):
                shim.tick("rename")
                os.rename(a, b)
                shim.tick("renamed")

            replace = rename

            def close(self, fd):
                shim.tick("close-fd")
                os.close(fd)

            def unlink(self, p):
                shim.tick("unlink")
                os.unlink(p)
                shim.tick("unlinked")

            remove = unlink

            def listdir(self, d="."):
                shim.tick("listdir")
                return sorted(os.listdir(d))

            def __getattr__(self, name):
                return getattr(os, name)

        FakeOS = _OS()

        class FakeTemp:
            @staticmethod
            def mkstemp(prefix="", dir=""):
                shim.tick("mkstemp")
                r = tempfile.mkstemp(prefix=prefix, dir=dir)
                shim.tick("mkstemp-done")
                return r

        class FakeShutil:
            @staticmethod
            def copy(a, b):
                shim.tick("copy")
                data = open(a, "rb").read()
                with open(b, "wb") as f:
                    f.write(data[: len(data) // 2])
                shim.tick("copy-partial")
                shutil.copy(a, b)
                shim.tick("copy-done")

        class FakeGlob:
            @staticmethod
            def glob(pattern, **kw):
                import glob as _g
                shim.tick("glob")
                return sorted(_g.glob(pattern, **kw))

            iglob = glob

            @staticmethod
            def escape(p):
                import glob as _g
                return _g.escape(p)

        class FakeSqlite:
            OperationalError = sqlite3.OperationalError
            DatabaseError = sqlite3.DatabaseError
            IntegrityError = sqlite3.IntegrityError
            Row = sqlite3.Row

            @staticmethod
            def connect(path):
                shim.tick("connect")
                existed = path == ":memory:" or os.path.exists(path)
                c = RealConn(shim, path)
                if not existed:
                    shim.tick("created")
                return c
        self.saved = {n: DBM.__dict__[n] for n in ("os", "tempfile", "shutil", "sqlite3", "glob") if n in DBM.__dict__}
        for n, fake in (("os", FakeOS), ("tempfile", FakeTemp), ("shutil", FakeShutil), ("sqlite3", FakeSqlite),
                        ("glob", FakeGlob)):
            if n in self.saved:
                setattr(DBM, n, fake)

    def uninstall(self):
        for n, real in self.saved.items():
            setattr(DBM, n, real)

    def power_off(self):
        for c in self.conns:
            try:
                c.real.close()          # uncommitted work is rolled back
            except Exception:
                pass
        self.conns = []
        self.crash_at = None


ENTRY = {"get": lambda name: (lambda p: DBM._get_db(p, name, {"channel": DBM.CHANNELDB_TARGET_VERSION,
                                                             "usage": DBM.USAGEDB_TARGET_VERSION}[name])),
         "create": lambda name: (DBM.create_channel_db if name == "channel" else DBM.create_usage_db),
         "upgrade": lambda name: (DBM.create_or_upgrade_channel_db if name == "channel" else DBM.create_or_upgrade_usage_db),
         "open_existing": lambda name: DBM.open_existing_db}


def schema_dump(path):
    c = sqlite3.connect(path)
    try:
        return sorted((r[0], r[1], " ".join((r[2] or "").split())) for r in
                      c.execute("SELECT type, name, sql FROM sqlite_master WHERE name NOT LIKE 'sqlite_%'").fetchall())
    finally:
        c.close()


def rows_dump(path, tables):
    c = sqlite3.connect(path)
    out = {}
    try:
        for t in tables:
            try:
                out[t] = sorted(json.dumps(list(r), default=str) for r in c.execute("SELECT * FROM `%s`" % t).fetchall())
            except sqlite3.Error as ex:
                out[t] = "ERR %s" % type(ex).__name__
    finally:
        c.close()
    return out


def run_db_script(sc):
    """sc: dict(kind='db', name, entry, initial: None|'junk'|'empty'|{version, schema_version, rows},
    crash_at, restart_entry)  ->  observed dict"""
    from . import world as W_
    DBM.log = W_.NullLog()
    d = tempfile.mkdtemp(prefix="sxdb-", dir=os.environ.get("SX_TMP"))
    path = os.path.join(d, "relay.sqlite")
    obs = {}
    try:
        init = sc.get("initial")
        if init == "junk":
            open(path, "wb").write(b"this is not a database\n" * 40)
        elif init == "empty":
            open(path, "wb").close()
        elif isinstance(init, dict):
            c = sqlite3.connect(path)
            c.executescript(DBM.get_schema(sc["name"], init["schema_version"]))
            for t, rows in init["rows"].items():
                for r in rows:
                    cols = list(r)
                    c.execute("INSERT INTO `%s` (%s) VALUES (%s)" % (t, ",".join("`%s`" % k for k in cols),
                                                                      ",".join("?" for _ in cols)), [r[k] for k in cols])
            c.execute("INSERT INTO version (version) VALUES (?)", (init["version"],))
            c.commit()
            c.close()
        nbs = {}
        for nm in sc.get("neighbours") or ():
            c = sqlite3.connect(os.path.join(d, nm))
            c.executescript(DBM.get_schema("usage", DBM.USAGEDB_TARGET_VERSION))
            c.execute("INSERT INTO version (version) VALUES (?)", (DBM.USAGEDB_TARGET_VERSION,))
            c.commit()
            c.close()
            nbs[nm] = open(os.path.join(d, nm), "rb").read()
        before = {f: open(os.path.join(d, f), "rb").read() for f in os.listdir(d)}
        tables = sorted(init["rows"]) if isinstance(init, dict) else []
        rows0 = rows_dump(path, tables) if tables else {}
        fn = ENTRY[sc["entry"]](sc["name"])
        shim = Shim(crash_at=sc.get("crash_at"))
        shim.install()
        try:
            try:
                fn(path)
                obs["first"] = None
            except Crash:
                obs["first"] = "Crash"
            except Exception as ex:
                obs["first"] = type(ex).__name__
        finally:
            shim.power_off()
            shim.uninstall()
        obs["events_first"] = list(shim.kinds)
        obs["path_exists_after_first"] = os.path.exists(path)
        obs["others_after_first"] = len([f for f in os.listdir(d) if os.path.join(d, f) != path and "backup" not in f])
        obs["unchanged_after_first"] = ({f: open(os.path.join(d, f), "rb").read() for f in os.listdir(d)
                                         if not f.endswith("-journal")} == before)
        if tables and os.path.exists(path):
            r1 = rows_dump(path, tables)
            obs["rows_kept_after_first"] = all(r1.get(t) == rows0[t] for t in tables)
        elif tables:
            obs["rows_kept_after_first"] = all(rows0[t] == [] for t in tables)
        bk = [f for f in os.listdir(d) if "backup" in f]
        if sc.get("check_backup") and obs["first"] is None:
            obs["backup_identical"] = bool(bk) and open(os.path.join(d, bk[0]), "rb").read() == before.get("relay.sqlite")
        if sc.get("restart_entry"):
            fn2 = ENTRY[sc["restart_entry"]](sc["name"])
            shim2 = Shim()
            shim2.install()
            try:
                try:
                    fn2(path)
                    obs["restart"] = None
                except Exception as ex:
                    obs["restart"] = type(ex).__name__
            finally:
                shim2.power_off()
                shim2.uninstall()
            if obs["restart"] is None:
                ref = os.path.join(d, "ref.sqlite")
                target = {"channel": DBM.CHANNELDB_TARGET_VERSION, "usage": DBM.USAGEDB_TARGET_VERSION}[sc["name"]]
                c = sqlite3.connect(ref)
                c.executescript(DBM.get_schema(sc["name"], target))
                c.close()
                obs["final_schema_ok"] = schema_dump(path) == schema_dump(ref)
                c = sqlite3.connect(path)
                obs["final_version_ok"] = [tuple(r) for r in c.execute("SELECT version FROM version").fetchall()] == [(target,)]
                c.close()
                if tables:
                    r2 = rows_dump(path, tables)
                    obs["final_rows_kept"] = all(r2.get(t) == rows0[t] for t in tables)
                if sc.get("check_backup"):
                    bk2 = [f for f in os.listdir(d) if "backup" in f]
                    obs["backup_identical_after_restart"] = bool(bk2) and \
                        open(os.path.join(d, bk2[0]), "rb").read() == before.get("relay.sqlite")
        if nbs:
            obs["neighbours_kept"] = all(os.path.exists(os.path.join(d, nm)) and
                                         open(os.path.join(d, nm), "rb").read() == data for nm, data in nbs.items())
    finally:
        shutil.rmtree(d, ignore_errors=True)
    return obs


def compare_db(pred, obs):
    diffs = []
    for k, v in pred.items():
        if obs.get(k) != v:
            diffs.append("%s: predicted %r, real %r" % (k, v, obs.get(k)))
    return diffs
