"""SX: path-exhaustive symbolic execution of the real /repo functions on z3-backed proxies."""
