"""Step obligations on the real websocket handlers: one operation from an arbitrary INV pre-state.
Each obligation computes every assertion it can serve (names are prefixed by the property id);
a property's check selects the ones it needs."""
import z3
from sx.engine import E, SBool, SStr, SNum, Z, Inconclusive, Unsupported
from sx.run import obligation, PathResult
from sx.world import inv_db_clauses, slot_unchanged, new_rows, count, CHANNEL_TABLES
from .common import *


def bounds(tier):
    if tier == "thorough":
        return dict(K=3, S=2, M=2)
    return dict(K=2, S=2, M=1)


def usage_cfg(e, usage):
    """usage=False: no usage store; 'plain': store, no blur; 'blur': store + symbolic interval"""
    if not usage:
        return dict(usage=False, blur=None)
    if usage == "blur":
        B = e.sym_int("blur")
        e.assume(z3.And(B.z >= 1, B.z <= 86400))
        return dict(usage=True, blur=B)
    return dict(usage=True, blur=None)


def finish(x, asserts, info=None, kf=None, inv=True, mem=True):
    """add the generic frame + invariant assertions and wrap up"""
    w, pre = x.w, x.pre
    post = w.snapshot()
    x.post = post
    if inv:
        for k, v in inv_db_clauses(post).items():
            asserts["INV." + k] = v
    if mem:
        im = inv_mem(w, post)
        for k, v in im.items():
            asserts["MEM." + k] = v
        w.obs.append(("mem", {k: (v if isinstance(v, bool) else SBool(v)) for k, v in im.items()}))
    # C10 (1): every state a kill can leave (each committed snapshot of this operation) passes the
    # start-up integrity check and has no duplicate records
    ci = []
    for (_, snap) in w.db.commit_log:
        cl = inv_db_clauses(snap)
        ci += [cl[k] for k in CRASH_CLAUSES]
        ci += [z3.Not(t) for t, _ in w.db.fk_violations(tables=snap.tables)]
    asserts["C10.crash_inv"] = And(*ci)
    if w.usage is not None and "C15.records" not in asserts:
        # nothing was retired by this operation: no usage record may appear
        up, uq = x.pre_usage, w.usage.snapshot()
        asserts["C15.records"] = all(len(uq.tables[t]) == len(up.tables[t]) for t in ("nameplates", "mailboxes"))
    asserts["C09.clean_at_exit"] = not (w.db.dirty or w.db.in_tx or
                                        (w.usage is not None and (w.usage.dirty or w.usage.in_tx)))
    asserts["C09.clean_at_send"] = all(not r["dirty"] for c in w.conns for r in step_frames(c))
    info = info or {}
    info.setdefault("shape", "%s/%s" % (x.a_shape, x.o_shape))
    if "frames" not in info:
        info["frames"] = [ftype(r) for r in step_frames(x.c)]
    return PathResult(asserts, world=w, info=info, kf=kf or [])


def target_bundle(x, mid):
    """term per bundle: the command's mailbox id names this bundle (of the acting app)"""
    return lambda b: And(b.p, b.mid.z == Z(mid), b.app.z == Z(x.app))


def target_by_id(x, mid):
    return lambda b: And(b.p, b.mid.z == Z(mid))


CONN_ATTRS = ("_app", "_side", "_did_allocate", "_listening", "_did_claim", "_nameplate_id", "_did_release",
              "_did_open", "_mailbox", "_mailbox_id", "_did_close")


def conn_state(c):
    """the connection's protocol state as comparable values (objects by identity)"""
    out = {}
    for k in CONN_ATTRS:
        v = getattr(c, k, None)
        out[k] = v
    return out


def conn_state_same(a, b):
    parts = []
    for k in CONN_ATTRS:
        x, y = a[k], b[k]
        if isinstance(x, (str, SBool, bool)) or isinstance(y, (str, SBool, bool)):
            if (x is None) != (y is None):
                parts.append(F)
            elif isinstance(x, str) or isinstance(y, str):
                parts.append(eqv(x, y))
            else:
                from sx.engine import tobool
                parts.append(tobool(x) == tobool(y))
        else:
            parts.append(x is y)
    return And(*parts)


def ack_ok(frames, msg):
    """first frame is an ack echoing the id"""
    if not frames or ftype(frames[0]) != "ack":
        return F
    return eqv(fval(frames[0], "id"), msg.get("id"))


def only_to(x, c):
    """no frame reached any connection other than c during the step"""
    return all(len(step_frames(o)) == 0 for o in x.w.conns if o is not c)


def subscription_intact(x, conn, b):
    """conn is still a registered listener of the registered Mailbox object of bundle b"""
    w = x.w
    ns = w.server._apps.get(b.app)
    if ns is None:
        return False
    mb = ns._mailboxes.get(b.mid)
    if mb is None or conn._mailbox is not mb:
        return False
    return conn in mb._listeners and bool(conn._listening)


# =============================================================================================
# close
# =============================================================================================
@obligation("step.close")
def step_close(e, tier="quick", usage=False, acting=None, others=None, crowd=1):
    bd = bounds(tier)
    x = build(e, crowd=crowd, **usage_cfg(e, usage), acting=acting, others=others, **bd)
    w, c, pre = x.w, x.c, x.pre
    has_mb = e.sym_bool("cmd.has_mailbox")
    mid = e.sym_str("cmd.mailbox")
    has_mood, mood = e.sym_bool("cmd.has_mood"), e.sym_str("cmd.mood")
    msg = w.msg("close", mailbox=(has_mb, mid), mood=(has_mood, mood),
                id=(e.sym_bool("cmd.has_id"), e.sym_str("cmd.id")))
    held = w.bundles[0].mid if x.a_shape == "sub0" else None
    ex = w.deliver(c, msg)
    when = w.clock.values[0]
    fr = step_frames(c)
    A = {}
    kf = F
    # ---- reference -------------------------------------------------------------------------
    if held is not None:
        proto_err = And(has_mb, mid.z != held.z)
        tgt = held.z
    else:
        proto_err = z3.Not(has_mb)
        tgt = mid.z
        kf = And(has_mb, kf_d6_term(x, mid))
    post = w.snapshot()
    is_t = lambda b: And(b.p, b.mid.z == tgt, b.app.z == Z(x.app))
    any_t = Or(*[is_t(b) for b in w.bundles])
    A["C08.no_exception"] = (ex is None)
    A["C17.no_exception"] = (ex is None)
    types = [ftype(r) for r in fr]
    A["C17.ack_first"] = ack_ok(fr, msg)
    A["C08.only_to_sender"] = only_to(x, c)
    # protocol error: exactly ack+error(orig), nothing stored
    err_shape = (types == ["ack", "error"] and fr[1]["frame"].get("orig") is msg)
    A["C17.proto_error"] = Implies(proto_err, And(err_shape, store_unchanged(pre, post)))
    # per-bundle expectations
    parts_effect, parts_answer, parts_commit, parts_access = [], [], [], []
    mood_null = z3.Not(has_mood)
    for b in w.bundles:
        sides_pre = rows_of(b, pre, "mailbox_sides")
        sides_post = rows_of(b, post, "mailbox_sides")
        mine = [And(s.p, s.v["side"] == Z(x.side)) for s in sides_pre]
        have_row = Or(*mine)
        n_pre = count([s.p for s in sides_pre])
        opened_fresh = (held is None)          # handle_close opens the mailbox first
        n_after_open = n_pre + z3.If(have_row, 0, 1) if opened_fresh else n_pre
        crowded = (n_after_open > 2) if opened_fresh else F
        others_open = Or(*[And(s.p, z3.Not(mine[i]), s.v["opened"] != 0) for i, s in enumerate(sides_pre)])
        cond = And(z3.Not(proto_err), is_t(b), z3.Not(kf))
        # E2: last open side closes -> everything of the bundle goes, in one commit
        last = And(cond, z3.Not(crowded), z3.Not(others_open))
        newr = {t: new_rows(pre, post, t) for t in CHANNEL_TABLES}
        new_absent = And(*[z3.Not(r.p) for t in CHANNEL_TABLES for r in newr[t]])
        parts_effect.append(Implies(last, And(bundle_absent(b, post), new_absent)))
        parts_answer.append(Implies(And(cond, z3.Not(crowded)), types == ["ack", "closed"]))
        parts_answer.append(Implies(And(cond, crowded),
                                    types == ["ack", "error"] and fval(fr[1], "error") == "crowded"))
        # E1: somebody else still open -> only my row changes (plus `updated` if it re-opened)
        partial = And(cond, z3.Not(crowded), others_open)
        e1 = []
        mbp, mbq = rows_of(b, pre, "mailboxes"), rows_of(b, post, "mailboxes")
        e1.append(And(mbq.p, mbq.v["app_id"] == mbp.v["app_id"], mbq.v["id"] == mbp.v["id"],
                      mbq.v["for_nameplate"] == mbp.v["for_nameplate"],
                      mbq.v["updated"] == when))
        for i, (a, q) in enumerate(zip(sides_pre, sides_post)):
            closed_row = And(q.p, q.v["opened"] == 0, q.n["mood"] == mood_null,
                             Implies(has_mood, q.v["mood"] == mood.z),
                             q.v["mailbox_id"] == a.v["mailbox_id"], q.v["side"] == a.v["side"],
                             q.v["added"] == a.v["added"])
            e1.append(z3.If(mine[i], closed_row, slot_unchanged(a, q)))
        # the row created by the re-open (fresh connection whose side had no row)
        new_sides = newr["mailbox_sides"]
        if opened_fresh:
            want_new = And(z3.Not(have_row))
            if len(new_sides) == 1:
                r = new_sides[0]
                e1.append(z3.If(want_new,
                                And(r.p, r.v["mailbox_id"] == tgt, r.v["side"] == Z(x.side),
                                    r.v["opened"] == 0, r.v["added"] == when, r.n["mood"] == mood_null,
                                    Implies(has_mood, r.v["mood"] == mood.z)),
                                z3.Not(r.p)))
            else:
                e1.append(And(have_row, len(new_sides) == 0))
        else:
            e1.append(len(new_sides) == 0)
        for t in ("nameplates", "nameplate_sides", "messages"):
            ix = b.ix[t]
            for i in (ix if isinstance(ix, list) else [ix]):
                e1.append(slot_unchanged(pre.tables[t][i], post.tables[t][i]))
            e1.append(And(*[z3.Not(r.p) for r in newr[t]]))
        e1.append(And(*[z3.Not(r.p) for r in newr["mailboxes"]]))
        parts_effect.append(Implies(partial, And(*e1)))
        # the deletion is one commit: no committed snapshot shows the bundle half-deleted
        for (_, snap) in w.db.commit_log:
            present = []
            for t in CHANNEL_TABLES:
                ix = b.ix[t]
                for i in (ix if isinstance(ix, list) else [ix]):
                    if i < len(snap.tables[t]):
                        present.append(Implies(pre.tables[t][i].p, snap.tables[t][i].p))
            parts_commit.append(Implies(cond, Or(And(*present), bundle_absent(b, snap))))
        # the other side keeps its subscription while the mailbox lives
        for (oc, ob, osj) in x.subs:
            if oc is c or ob is not b:
                continue
            parts_access.append(Implies(partial, subscription_intact(x, oc, b)))
    # target absent: open-then-close of a fresh id leaves no trace
    absent = And(z3.Not(proto_err), z3.Not(any_t), z3.Not(kf))
    A["C08.effect"] = And(*parts_effect,
                          Implies(absent, And(types == ["ack", "closed"],
                                              And(*[slot_unchanged(a, q) for t in CHANNEL_TABLES
                                                    for a, q in zip(pre.tables[t], post.tables[t])]),
                                              And(*[z3.Not(r.p) for t in CHANNEL_TABLES
                                                    for r in new_rows(pre, post, t)]))))
    A["C08.answer"] = And(*parts_answer)
    A["C08.one_commit"] = And(*parts_commit)
    A["C08.other_access"] = And(*parts_access)
    A["C08.others_untouched"] = frame_other_bundles(w, pre, post, lambda b: And(b.p, b.mid.z == tgt))
    A["C12.others_untouched"] = A["C08.others_untouched"]

    def own_mood(b, i):
        r = rows_of(b, pre, "mailbox_sides")[i]
        return (And(r.p, r.v["side"] == Z(x.side)), (mood_null, mood.z))
    transient = []
    if held is None:
        transient = [(absent, x.app, [(T, when, Or(mood_null, mood.z == Z("")), mood.z)], F)]
    usage_asserts(A, x, pre, post, when, F, w.cfg["blur"], own_mood=own_mood, transient_mb=transient)
    # generic frames
    A["C01.msg_frame"] = frame_messages(w, pre, post)
    A["C01.no_new_msg"] = len(new_rows(pre, post, "messages")) == 0
    A["C03.np_frame"] = frame_nameplate_rows(w, pre, post)
    A["C05.side_frame"] = frame_side_rows(w, pre, post)
    A["C06.local"] = frame_other_apps(w, pre, post, x.app)
    A["C07.claims"] = claims_frame(w, pre, post)
    return finish(x, A, info=dict(exc=type(ex).__name__ if ex else None),
                  kf=[("KF-D6", kf)] if held is None else [])


# =============================================================================================
# helpers for "exactly these new rows"
# =============================================================================================
def row_is(snap, table, r, **vals):
    """term: row r is present with these column values (None = SQL NULL; a (nullbit, value) pair =
    NULL iff nullbit)"""
    parts = [r.p]
    for k, v in vals.items():
        if v is None:
            parts.append(r.n[k])
        elif isinstance(v, tuple):
            nb, val = v
            parts.append(r.n[k] == nb)
            parts.append(Implies(z3.Not(nb), eqv(col_value(snap, table, r, k), val)))
        else:
            parts.append(z3.Not(r.n[k]))
            parts.append(eqv(col_value(snap, table, r, k), v))
    return And(*parts)


def new_exactly(pre, post, table, want):
    """term: the rows appended to `table` are exactly `want`: list of (condition, dict of column values);
    a wanted row whose condition is false must not have been inserted (or is absent)"""
    nr = new_rows(pre, post, table)
    # every new row matches some wanted spec whose condition holds, and each holding spec is matched once
    parts = []
    n_want = count([c for c, _ in want]) if want else z3.IntVal(0)
    parts.append(count([r.p for r in nr]) == n_want)
    for r in nr:
        parts.append(Implies(r.p, Or(*[And(c, row_is(post, table, r, **spec)) for c, spec in want])))
    for c, spec in want:
        parts.append(Implies(c, Or(*[row_is(post, table, r, **spec) for r in nr])))
    return And(*parts)


def all_unchanged_except(w, pre, post, skip):
    """every pre slot unchanged except those for which skip(table, index) is true"""
    parts = []
    for t in CHANNEL_TABLES:
        for i, (a, q) in enumerate(zip(pre.tables[t], post.tables[t])):
            if not skip(t, i):
                parts.append(slot_unchanged(a, q))
    return And(*parts)


def touched(b, pre, post, when):
    """mailbox row of b unchanged except updated := when"""
    a, q = rows_of(b, pre, "mailboxes"), rows_of(b, post, "mailboxes")
    return And(q.p, q.v["app_id"] == a.v["app_id"], q.v["id"] == a.v["id"],
               q.v["for_nameplate"] == a.v["for_nameplate"], q.v["updated"] == when)


def generic_frames(A, x, pre, post, released=None):
    w = x.w
    A["C01.msg_frame"] = frame_messages(w, pre, post)
    A["C03.np_frame"] = frame_nameplate_rows(w, pre, post)
    A["C05.side_frame"] = frame_side_rows(w, pre, post)
    A["C06.local"] = frame_other_apps(w, pre, post, x.app)
    A["C07.claims"] = claims_frame(w, pre, post, released)


def not_subscribed_anywhere(x, c):
    for ns in x.w.server._apps.values():
        for mb in ns._mailboxes.values():
            if c in mb._listeners:
                return False
    return c._mailbox is None


# =============================================================================================
# open
# =============================================================================================
@obligation("step.open")
def step_open(e, tier="quick", usage=False, acting=None, others=None):
    bd = bounds(tier)
    x = build(e, crowd=1, **usage_cfg(e, usage), acting=acting, others=others, **bd)
    w, c, pre = x.w, x.c, x.pre
    has_mb, mid = e.sym_bool("cmd.has_mailbox"), e.sym_str("cmd.mailbox")
    msg = w.msg("open", mailbox=(has_mb, mid), id=(e.sym_bool("cmd.has_id"), e.sym_str("cmd.id")))
    ex = w.deliver(c, msg)
    when = w.clock.values[0]
    fr = step_frames(c)
    types = [ftype(r) for r in fr]
    post = w.snapshot()
    A = {}
    kf = And(has_mb, kf_d6_term(x, mid))
    proto_err = T if x.a_shape == "sub0" else z3.Not(has_mb)
    A["C17.no_exception"] = (ex is None)
    A["C17.ack_first"] = ack_ok(fr, msg)
    err_shape = (types == ["ack", "error"] and fr[1]["frame"].get("orig") is msg)
    A["C17.proto_error"] = Implies(proto_err, And(err_shape, store_unchanged(pre, post)))
    A["C02.only_to_sender"] = only_to(x, c)
    is_t = lambda b: And(b.p, b.mid.z == mid.z, b.app.z == Z(x.app))
    any_t = Or(*[is_t(b) for b in w.bundles])
    msg_frames = [r for r in fr[1:] if ftype(r) == "message"]
    eff, ans, crowd_parts, replay = [], [], [], []
    nm = {t: new_rows(pre, post, t) for t in CHANNEL_TABLES}
    if x.a_shape != "sub0":
        side = x.side
        # which stored messages must be replayed: those of (app, mailbox id)
        want_msgs = []
        for b in w.bundles:
            for m, r in zip(b.msgs, rows_of(b, pre, "messages")):
                want_msgs.append((And(r.p, r.v["app_id"] == Z(x.app), r.v["mailbox_id"] == mid.z), r))
        for b in w.bundles:
            sides_pre = rows_of(b, pre, "mailbox_sides")
            mine = [And(s.p, s.v["side"] == Z(side)) for s in sides_pre]
            have_row = Or(*mine)
            n_after = count([s.p for s in sides_pre]) + z3.If(have_row, 0, 1)
            crowded = n_after > 2
            cond = And(has_mb, is_t(b), z3.Not(kf))
            # store effect (crowded or not): touch + my side row if it was missing; nothing else
            eff.append(Implies(cond, And(
                touched(b, pre, post, when),
                all_unchanged_except(w, pre, post, lambda t, i: t == "mailboxes" and i == b.ix["mailboxes"]),
                new_exactly(pre, post, "mailbox_sides",
                            [(z3.Not(have_row), dict(mailbox_id=mid, side=side, opened=1, added=SNum(when), mood=None))]),
                *[z3.Not(r.p) for t in ("mailboxes", "nameplates", "nameplate_sides", "messages") for r in nm[t]])))
            ans.append(Implies(And(cond, crowded),
                               types == ["ack", "error"] and fval(fr[1], "error") == "crowded"))
            ans.append(Implies(And(cond, z3.Not(crowded)),
                               types == ["ack"] + ["message"] * len(msg_frames)))
            crowd_parts.append(Implies(And(cond, crowded), And(len(msg_frames) == 0,
                                                               not_subscribed_anywhere(x, c))))
            crowd_parts.append(Implies(And(cond, z3.Not(crowded)), subscription_intact(x, c, b)
                                       if not not_subscribed_anywhere(x, c) else F))
        absent = And(has_mb, z3.Not(any_t), z3.Not(kf))
        eff.append(Implies(absent, And(
            all_unchanged_except(w, pre, post, lambda t, i: False),
            new_exactly(pre, post, "mailboxes",
                        [(T, dict(app_id=x.app, id=mid, for_nameplate=0, updated=SNum(when)))]),
            new_exactly(pre, post, "mailbox_sides",
                        [(T, dict(mailbox_id=mid, side=side, opened=1, added=SNum(when), mood=None))]),
            *[z3.Not(r.p) for t in ("nameplates", "nameplate_sides", "messages") for r in nm[t]])))
        ans.append(Implies(absent, types == ["ack"]))
        # replay: the message frames are exactly the stored messages of (app, mailbox id), unless crowded
        n_want = count([cnd for cnd, _ in want_msgs])
        not_crowded_or_absent = Or(absent, *[And(has_mb, is_t(b), z3.Not(kf),
                                                 z3.Not(count([s.p for s in rows_of(b, pre, "mailbox_sides")]) +
                                                        z3.If(Or(*[And(s.p, s.v["side"] == Z(side))
                                                                   for s in rows_of(b, pre, "mailbox_sides")]), 0, 1) > 2))
                                             for b in w.bundles])

        def frame_is(fr_, r):
            f = fr_["frame"]
            cv = lambda c: col_value(pre, "messages", r, c)
            return And(eqv(f.get("side"), cv("side")), eqv(f.get("phase"), cv("phase")),
                       eqv(f.get("body"), cv("body")), eqv(f.get("server_rx"), cv("server_rx")),
                       z3.If(r.n["msg_id"], f.get("id") is None,
                             eqv(f.get("id"), cv("msg_id")) if f.get("id") is not None else F))
        rp = [n_want == len(msg_frames)]
        for f_ in msg_frames:
            rp.append(Or(*[And(cnd, frame_is(f_, r)) for cnd, r in want_msgs]))
        for cnd, r in want_msgs:
            rp.append(Implies(cnd, Or(*[frame_is(f_, r) for f_ in msg_frames])))
        replay.append(Implies(And(not_crowded_or_absent, z3.Not(kf)), And(*rp)))
    A["C01.replay"] = And(*replay)
    A["C01.effect"] = And(*eff)
    A["C05.effect"] = And(*eff)
    A["C05.crowd"] = And(*crowd_parts, *ans)
    A["C01.answer"] = And(*ans)
    A["C01.no_new_msg"] = len(nm["messages"]) == 0
    A["C12.touch"] = And(*eff)
    generic_frames(A, x, pre, post)
    A["C08.others_untouched"] = frame_other_bundles(w, pre, post, lambda b: And(b.p, b.mid.z == mid.z))
    return finish(x, A, info=dict(exc=type(ex).__name__ if ex else None), kf=[("KF-D6", kf)])


# =============================================================================================
# add
# =============================================================================================
@obligation("step.add")
def step_add(e, tier="quick", usage=False, acting=None, others=None):
    bd = bounds(tier)
    x = build(e, crowd=1, **usage_cfg(e, usage), acting=acting, others=others, **bd)
    w, c, pre = x.w, x.c, x.pre
    has_ph, ph = e.sym_bool("cmd.has_phase"), e.sym_str("cmd.phase")
    has_bd, body = e.sym_bool("cmd.has_body"), e.sym_str("cmd.body")
    has_id, mid_ = e.sym_bool("cmd.has_id"), e.sym_str("cmd.id")
    # a side field in the command must be ignored (the bound side is what counts)
    msg = w.msg("add", phase=(has_ph, ph), body=(has_bd, body), id=(has_id, mid_),
                side=(e.sym_bool("cmd.has_side"), e.sym_str("cmd.side")))
    ex = w.deliver(c, msg)
    when = w.clock.values[0]
    fr = step_frames(c)
    types = [ftype(r) for r in fr]
    post = w.snapshot()
    A = {}
    A["C17.no_exception"] = (ex is None)
    A["C17.ack_first"] = ack_ok(fr, msg)
    proto_err = T if x.a_shape not in ("sub0", "reopened0") else Or(z3.Not(has_ph), z3.Not(has_bd))
    err_shape = (types == ["ack", "error"] and fr[1]["frame"].get("orig") is msg)
    A["C17.proto_error"] = Implies(proto_err, And(err_shape, store_unchanged(pre, post),
                                                  all(len(step_frames(o)) == 0 for o in w.conns if o is not c)))
    nm = {t: new_rows(pre, post, t) for t in CHANNEL_TABLES}
    if x.a_shape in ("sub0", "reopened0"):
        b = w.bundles[0]
        ok = z3.Not(proto_err)
        A["C01.stored"] = Implies(ok, And(
            new_exactly(pre, post, "messages",
                        [(T, dict(app_id=b.app, mailbox_id=b.mid, side=x.side, phase=ph, body=body,
                                  server_rx=SNum(when), msg_id=(z3.Not(has_id), mid_)))]),
            touched(b, pre, post, when),
            all_unchanged_except(w, pre, post, lambda t, i: t == "mailboxes" and i == b.ix["mailboxes"]),
            *[z3.Not(r.p) for t in ("mailboxes", "nameplates", "nameplate_sides", "mailbox_sides") for r in nm[t]]))
        A["C12.touch"] = A["C01.stored"]
        # delivery: exactly one message frame to every connection subscribed to (app, mailbox), none to others
        deliv = []
        for o in w.conns:
            ofr = step_frames(o)
            mfr = [r for r in ofr if ftype(r) == "message"]
            rest = [ftype(r) for r in ofr if ftype(r) != "message"]
            subscribed = any(oc is o and ob is b for (oc, ob, _) in x.subs)
            if subscribed:
                good = len(mfr) == 1 and rest == (["ack"] if o is c else [])
                if good:
                    f = mfr[0]["frame"]
                    good = And(eqv(f.get("side"), x.side), eqv(f.get("phase"), ph), eqv(f.get("body"), body),
                               eqv(f.get("server_rx"), SNum(when)),
                               z3.If(has_id, eqv(f.get("id"), mid_) if f.get("id") is not None else F,
                                     f.get("id") is None))
                deliv.append(Implies(ok, good))
            else:
                deliv.append(Implies(ok, len(ofr) == 0))
        A["C02.delivery"] = And(*deliv)
        A["C05.delivery"] = A["C02.delivery"]
    else:
        A["C01.stored"] = T
        A["C02.delivery"] = T
    generic_frames(A, x, pre, post)
    A["C08.others_untouched"] = frame_other_bundles(
        w, pre, post, (lambda bb: bb is w.bundles[0]) if x.a_shape in ("sub0", "reopened0") else (lambda bb: F))
    return finish(x, A, info=dict(exc=type(ex).__name__ if ex else None))


# =============================================================================================
# claim
# =============================================================================================
def claim_reference(x, pre, post, name, when, fresh_id, nm):
    """expected store effect / answer of claim(name) by (x.app, x.side): returns
    (effect term, answer-kind terms dict, claimed mailbox id term)"""
    w = x.w
    side = x.side
    is_t = lambda b: And(b.has_np, b.app.z == Z(x.app), b.name.z == Z(name))
    any_t = Or(*[is_t(b) for b in w.bundles])
    eff = []
    kinds = dict(reclaimed=[], crowded=[], claimed=[])
    answer_id = []
    for b in w.bundles:
        nsp = rows_of(b, pre, "nameplate_sides")
        msp = rows_of(b, pre, "mailbox_sides")
        mine_np = [And(r.p, r.v["side"] == Z(side)) for r in nsp]
        mine_mb = [And(r.p, r.v["side"] == Z(side)) for r in msp]
        have_np_row, have_mb_row = Or(*mine_np), Or(*mine_mb)
        released_before = Or(*[And(m, r.v["claimed"] == 0) for m, r in zip(mine_np, nsp)])
        n_after = count([r.p for r in msp]) + z3.If(have_mb_row, 0, 1)
        crowded = n_after > 2
        cond = is_t(b)
        kinds["reclaimed"].append(And(cond, released_before))
        kinds["crowded"].append(And(cond, z3.Not(released_before), crowded))
        kinds["claimed"].append(And(cond, z3.Not(released_before), z3.Not(crowded)))
        answer_id.append((And(cond, z3.Not(released_before), z3.Not(crowded)), b.mid.z))
        none_new = [z3.Not(r.p) for t in CHANNEL_TABLES for r in nm[t]]
        eff.append(Implies(And(cond, released_before), And(store_unchanged(pre, post) if no_new_rows(pre, post) else And(
            *[slot_unchanged(a, q) for t in CHANNEL_TABLES for a, q in zip(pre.tables[t], post.tables[t])], *none_new))))
        eff.append(Implies(And(cond, z3.Not(released_before)), And(
            touched(b, pre, post, when),
            all_unchanged_except(w, pre, post, lambda t, i: t == "mailboxes" and i == b.ix["mailboxes"]),
            new_exactly(pre, post, "nameplate_sides",
                        [(z3.Not(have_np_row), dict(nameplates_id=b.npid, claimed=1, side=side, added=SNum(when)))]),
            new_exactly(pre, post, "mailbox_sides",
                        [(z3.Not(have_mb_row), dict(mailbox_id=b.mid, opened=1, side=side, added=SNum(when), mood=None))]),
            *[z3.Not(r.p) for t in ("mailboxes", "nameplates", "messages") for r in nm[t]])))
    absent = z3.Not(any_t)
    kinds["claimed"].append(absent)
    if fresh_id is not None:
        answer_id.append((absent, fresh_id))
        eff.append(Implies(absent, And(
            all_unchanged_except(w, pre, post, lambda t, i: False),
            new_exactly(pre, post, "mailboxes",
                        [(T, dict(app_id=x.app, id=SStr(fresh_id), for_nameplate=1, updated=SNum(when)))]),
            new_exactly(pre, post, "nameplates",
                        [(T, dict(id=SNum(w.next_npid.z), app_id=x.app, name=name, mailbox_id=SStr(fresh_id),
                                  request_id=None))]),
            new_exactly(pre, post, "nameplate_sides",
                        [(T, dict(nameplates_id=SNum(w.next_npid.z), claimed=1, side=side, added=SNum(when)))]),
            new_exactly(pre, post, "mailbox_sides",
                        [(T, dict(mailbox_id=SStr(fresh_id), opened=1, side=side, added=SNum(when), mood=None))]),
            *[z3.Not(r.p) for r in nm["messages"]])))
    else:
        eff.append(z3.Not(absent))
    return And(*eff), {k: Or(*v) for k, v in kinds.items()}, answer_id


@obligation("step.claim")
def step_claim(e, tier="quick", usage=False, acting=None, others=None):
    bd = bounds(tier)
    x = build(e, crowd=1, **usage_cfg(e, usage), acting=acting or ["fresh", "sub0", "claimed0"],
              others=others or ["none", "sub0s1"], **bd)
    w, c, pre = x.w, x.c, x.pre
    has_np, name = e.sym_bool("cmd.has_nameplate"), e.sym_str("cmd.nameplate")
    msg = w.msg("claim", nameplate=(has_np, name), id=(e.sym_bool("cmd.has_id"), e.sym_str("cmd.id")))
    nfresh = len(w.fresh_ids)
    ex = w.deliver(c, msg)
    when = w.clock.values[0]
    fr = step_frames(c)
    types = [ftype(r) for r in fr]
    post = w.snapshot()
    nm = {t: new_rows(pre, post, t) for t in CHANNEL_TABLES}
    fresh_id = w.fresh_ids[nfresh] if len(w.fresh_ids) > nfresh else None
    A = {}
    A["C17.no_exception"] = (ex is None)
    A["C17.ack_first"] = ack_ok(fr, msg)
    A["C03.only_to_sender"] = only_to(x, c)
    already = (x.a_shape == "claimed0")
    proto_err = T if already else z3.Not(has_np)
    err_shape = (types == ["ack", "error"] and fr[1]["frame"].get("orig") is msg)
    A["C17.proto_error"] = Implies(proto_err, And(err_shape, store_unchanged(pre, post)))
    if not already:
        eff, kinds, answer_id = claim_reference(x, pre, post, name, when, fresh_id, nm)
        ok = has_np
        A["C03.effect"] = Implies(ok, eff)
        ans = []
        ans.append(Implies(And(ok, kinds["reclaimed"]), types == ["ack", "error"] and fval(fr[1], "error") == "reclaimed"))
        ans.append(Implies(And(ok, kinds["crowded"]), types == ["ack", "error"] and fval(fr[1], "error") == "crowded"))
        if types == ["ack", "claimed"]:
            told = fval(fr[1], "mailbox")
            ans.append(Implies(ok, And(kinds["claimed"], *[Implies(cnd, eqv(told, SStr(idt))) for cnd, idt in answer_id])))
        else:
            ans.append(Implies(ok, z3.Not(kinds["claimed"])))
        A["C03.answer"] = And(*ans)
        A["C07.reclaimed"] = And(ans[0], Implies(And(ok, kinds["reclaimed"]), store_unchanged(pre, post)
                                                 if no_new_rows(pre, post) else F))
        A["C05.crowd"] = And(ans[1], Implies(And(ok, kinds["crowded"]), not_subscribed_anywhere(x, c)
                                             if x.a_shape != "sub0" else T))
        A["C12.touch"] = A["C03.effect"]
    generic_frames(A, x, pre, post)
    A["C01.no_new_msg"] = len(nm["messages"]) == 0
    A["C08.others_untouched"] = frame_other_bundles(
        w, pre, post, lambda b: And(b.has_np, b.app.z == Z(x.app), b.name.z == name.z))
    return finish(x, A, info=dict(exc=type(ex).__name__ if ex else None))


# =============================================================================================
# release
# =============================================================================================
@obligation("step.release")
def step_release(e, tier="quick", usage=False, acting=None, others=None):
    bd = bounds(tier)
    x = build(e, crowd=1, **usage_cfg(e, usage), acting=acting or ["fresh", "claimed0"],
              others=others or ["none", "sub0s1"], **bd)
    w, c, pre = x.w, x.c, x.pre
    has_np, name = e.sym_bool("cmd.has_nameplate"), e.sym_str("cmd.nameplate")
    msg = w.msg("release", nameplate=(has_np, name), id=(e.sym_bool("cmd.has_id"), e.sym_str("cmd.id")))
    ex = w.deliver(c, msg)
    when = w.clock.values[0]
    fr = step_frames(c)
    types = [ftype(r) for r in fr]
    post = w.snapshot()
    nm = {t: new_rows(pre, post, t) for t in CHANNEL_TABLES}
    A = {}
    A["C17.no_exception"] = (ex is None)
    A["C17.ack_first"] = ack_ok(fr, msg)
    A["C07.only_to_sender"] = only_to(x, c)
    if x.a_shape == "claimed0":
        held = w.bundles[0].name
        proto_err = And(has_np, name.z != held.z)
        tgt = held.z
    else:
        proto_err = z3.Not(has_np)
        tgt = name.z
    err_shape = (types == ["ack", "error"] and fr[1]["frame"].get("orig") is msg)
    A["C17.proto_error"] = Implies(proto_err, And(err_shape, store_unchanged(pre, post)))
    ok = z3.Not(proto_err)
    A["C07.answer"] = Implies(ok, types == ["ack", "released"])
    is_t = lambda b: And(b.has_np, b.app.z == Z(x.app), b.name.z == tgt)
    eff = [len(nm[t]) == 0 for t in CHANNEL_TABLES]
    rel = {}
    for b in w.bundles:
        nsp, nsq = rows_of(b, pre, "nameplate_sides"), rows_of(b, post, "nameplate_sides")
        mine = [And(r.p, r.v["side"] == Z(x.side)) for r in nsp]
        for i in range(len(nsp)):
            rel[(b.k, i)] = And(ok, is_t(b), mine[i])
        have = Or(*mine)
        others_claimed = Or(*[And(r.p, z3.Not(mine[i]), r.v["claimed"] != 0) for i, r in enumerate(nsp)])
        cond = And(ok, is_t(b))
        skip_b = lambda t, i, b=b: (t == "nameplates" and i == b.ix["nameplates"]) or \
                                   (t == "nameplate_sides" and i in b.ix["nameplate_sides"])
        # no row of mine: nothing changes
        eff.append(Implies(And(cond, z3.Not(have)), all_unchanged_except(w, pre, post, lambda t, i: False)))
        # someone else still holds it: only my flag is cleared
        flags = []
        for i, (a, q) in enumerate(zip(nsp, nsq)):
            flipped = And(q.p, q.v["claimed"] == 0, *[a.v[k] == q.v[k] for k in a.v if k != "claimed"])
            flags.append(z3.If(mine[i], flipped, slot_unchanged(a, q)))
        eff.append(Implies(And(cond, have, others_claimed),
                           And(all_unchanged_except(w, pre, post, lambda t, i, b=b: t == "nameplate_sides" and
                                                    i in b.ix["nameplate_sides"]), *flags)))
        # last claim released: nameplate and its side rows go (the mailbox stays), in one commit
        gone = And(nameplate_gone(b, post), *[z3.Not(q.p) for q in nsq])
        eff.append(Implies(And(cond, have, z3.Not(others_claimed)),
                           And(all_unchanged_except(w, pre, post, skip_b), gone)))
        for (_, snap) in w.db.commit_log:
            sn = [snap.tables["nameplate_sides"][i] for i in b.ix["nameplate_sides"]]
            whole = And(snap.tables["nameplates"][b.ix["nameplates"]].p,
                        *[Implies(a.p, s_.p) for a, s_ in zip(nsp, sn)])
            none = And(z3.Not(snap.tables["nameplates"][b.ix["nameplates"]].p), *[z3.Not(s_.p) for s_ in sn])
            eff.append(Implies(cond, Or(whole, none)))
    eff.append(Implies(And(ok, z3.Not(Or(*[is_t(b) for b in w.bundles]))),
                       all_unchanged_except(w, pre, post, lambda t, i: False)))
    A["C07.effect"] = And(*eff)
    # C03 relies on it: only a nameplate that was really retired makes room for a new incarnation
    A["C03.release_retires"] = A["C07.effect"]
    usage_asserts(A, x, pre, post, when, F, w.cfg["blur"])
    generic_frames(A, x, pre, post, released=lambda b, i: rel[(b.k, i)])
    A["C01.no_new_msg"] = len(nm["messages"]) == 0
    A["C08.others_untouched"] = frame_other_bundles(w, pre, post, is_t)
    return finish(x, A, info=dict(exc=type(ex).__name__ if ex else None))


# =============================================================================================
# list / allocate / bind / disconnect
# =============================================================================================
@obligation("step.list")
def step_list(e, tier="quick", usage=False):
    bd = bounds(tier)
    allow = [True, False][e.choose(2, "allow_list")]
    x = build(e, **usage_cfg(e, usage), allow_list=allow, acting=["fresh", "sub0"], others=["none"], **bd)
    w, c, pre = x.w, x.c, x.pre
    msg = w.msg("list", id=(e.sym_bool("cmd.has_id"), e.sym_str("cmd.id")))
    ex = w.deliver(c, msg)
    fr = step_frames(c)
    types = [ftype(r) for r in fr]
    post = w.snapshot()
    A = {}
    A["C17.no_exception"] = (ex is None)
    A["C17.ack_first"] = ack_ok(fr, msg)
    A["C18.unchanged"] = store_unchanged(pre, post)
    good = types == ["ack", "nameplates"]
    if good:
        lst = fval(fr[1], "nameplates")
        good = isinstance(lst, list) and all(isinstance(d, dict) and set(d.keys()) == {"id"} for d in lst)
    if good:
        ids = [d["id"] for d in lst]
        mine = [And(b.has_np, b.app.z == Z(x.app)) for b in w.bundles]
        if allow:
            parts = [count(mine) == len(ids)]
            for b, m in zip(w.bundles, mine):
                parts.append(Implies(m, Or(*[eqv(i, b.name) for i in ids])))
            for i in ids:
                parts.append(Or(*[And(m, eqv(i, b.name)) for b, m in zip(w.bundles, mine)]))
            for a in range(len(ids)):
                for b_ in range(a):
                    parts.append(z3.Not(eqv(ids[a], ids[b_])))
            good = And(*parts)
        else:
            good = (len(ids) == 0)
    A["C18.list"] = good
    A["C07.list"] = good
    A["C06.list"] = good
    generic_frames(A, x, pre, post)
    return finish(x, A, info=dict(allow=allow, n=len(fval(fr[1], "nameplates")) if len(fr) > 1 and
                                  isinstance(fval(fr[1], "nameplates"), list) else None))


@obligation("step.allocate")
def step_allocate(e, tier="quick", usage=False):
    bd = bounds(tier)
    allow = [True, False][e.choose(2, "allow_list")]
    x = build(e, **usage_cfg(e, usage), allow_list=allow, acting=["fresh"], others=["none"], **bd)
    w, c, pre = x.w, x.c, x.pre
    msg = w.msg("allocate", id=(e.sym_bool("cmd.has_id"), e.sym_str("cmd.id")))
    nfresh = len(w.fresh_ids)
    ex = w.deliver(c, msg)
    when = w.clock.values[0]
    fr = step_frames(c)
    types = [ftype(r) for r in fr]
    post = w.snapshot()
    nm = {t: new_rows(pre, post, t) for t in CHANNEL_TABLES}
    A = {}
    A["C17.no_exception"] = (ex is None)
    A["C17.ack_first"] = ack_ok(fr, msg)
    good = types == ["ack", "allocated"]
    A["C04.answered"] = good
    if good:
        r = fval(fr[1], "nameplate")
        digits = [str(i) for i in range(1, 10)]
        in_use = Or(*[And(b.has_np, b.app.z == Z(x.app), eqv(r, b.name)) for b in w.bundles])
        A["C04.free"] = z3.Not(in_use)
        # with at most len(bundles) < 9 names in use a one-digit value is free, so the answer has one digit
        A["C04.shortest"] = Or(*[eqv(r, d) for d in digits])
        fresh_id = w.fresh_ids[nfresh] if len(w.fresh_ids) > nfresh else None
        A["C04.held"] = And(
            fresh_id is not None,
            new_exactly(pre, post, "nameplates",
                        [(T, dict(id=SNum(w.next_npid.z), app_id=x.app, name=r, mailbox_id=SStr(fresh_id),
                                  request_id=None))]) if fresh_id is not None else F,
            new_exactly(pre, post, "nameplate_sides",
                        [(T, dict(nameplates_id=SNum(w.next_npid.z), claimed=1, side=x.side, added=SNum(when)))]),
            all_unchanged_except(w, pre, post, lambda t, i: False),
            # committed when the answer leaves
            not fr[1]["dirty"])
        A["C04.once"] = bool(c._did_allocate) is True
    generic_frames(A, x, pre, post)
    A["C01.no_new_msg"] = len(nm["messages"]) == 0
    return finish(x, A, info=dict(allow=allow))


@obligation("step.bind")
def step_bind(e, tier="quick", usage=False):
    bd = bounds(tier)
    x = build(e, **usage_cfg(e, usage), acting=["unbound", "fresh"], others=["none", "sub0s0"], **bd)
    w, c, pre = x.w, x.c, x.pre
    has_app, app = e.sym_bool("cmd.has_appid"), e.sym_str("cmd.appid")
    has_side, side = e.sym_bool("cmd.has_side"), e.sym_str("cmd.side")
    msg = w.msg("bind", appid=(has_app, app), side=(has_side, side),
                id=(e.sym_bool("cmd.has_id"), e.sym_str("cmd.id")))
    ex = w.deliver(c, msg)
    fr = step_frames(c)
    types = [ftype(r) for r in fr]
    post = w.snapshot()
    A = {}
    A["C17.no_exception"] = (ex is None)
    A["C17.ack_first"] = ack_ok(fr, msg)
    proto_err = T if x.a_shape == "fresh" else Or(z3.Not(has_app), z3.Not(has_side))
    err_shape = (types == ["ack", "error"] and fr[1]["frame"].get("orig") is msg)
    A["C17.proto_error"] = Implies(proto_err, err_shape)
    A["C17.bind_ok"] = Implies(z3.Not(proto_err), types == ["ack"])
    A["C17.unchanged"] = store_unchanged(pre, post)
    A["C02.only_to_sender"] = only_to(x, c)
    if w.usage is not None:
        when = w.clock.values[0]
        cv = w.usage.snapshot().tables["client_versions"]
        blur = w.cfg["blur"]
        want_t = blurred(when, blur)
        A["C16.connect_time"] = Implies(z3.Not(proto_err), And(
            count([r.p for r in cv]) == 1,
            *[Implies(r.p, And(r.v["connect_time"] == want_t, r.v["app_id"] == app.z, r.v["side"] == side.z))
              for r in cv]))
        A["C15.bind_committed"] = not (w.usage.dirty or w.usage.in_tx)
        usage_asserts(A, x, pre, post, when, F, blur)
    generic_frames(A, x, pre, post)
    return finish(x, A)


@obligation("step.disconnect")
def step_disconnect(e, tier="quick", usage=False):
    bd = bounds(tier)
    x = build(e, **usage_cfg(e, usage), acting=["unbound", "fresh", "sub0", "claimed0", "reopened0"],
              others=["none", "sub0s0", "sub0s1"], **bd)
    w, c, pre = x.w, x.c, x.pre
    ex = w.disconnect(c)
    post = w.snapshot()
    A = {}
    A["C17.no_exception"] = (ex is None)
    A["C02.no_frames"] = all(len(step_frames(o)) == 0 for o in w.conns + [c])
    A["C02.unsubscribed"] = all(c not in mb._listeners for ns in w.server._apps.values()
                                for mb in ns._mailboxes.values())
    A["C02.others_keep"] = all(subscription_intact(x, oc, ob) for (oc, ob, _) in x.subs if oc is not c)
    A["C01.unchanged"] = store_unchanged(pre, post)
    generic_frames(A, x, pre, post)
    return finish(x, A)


# =============================================================================================
# arbitrary JSON object in an arbitrary protocol state (C17)
# =============================================================================================
KNOWN_TYPES = ["ping", "bind", "list", "allocate", "claim", "release", "open", "add", "close"]


@obligation("step.any")
def step_any(e, tier="quick", usage=False, types=None):
    bd = dict(bounds(tier))
    bd["M"] = 1
    x = build(e, crowd=0, **usage_cfg(e, usage), acting=["unbound", "fresh", "sub0", "claimed0"], others=["none", "sub0s1"], **bd)
    w, c, pre = x.w, x.c, x.pre
    # protocol state of the acting connection
    fl = {}
    if x.a_shape != "unbound":
        for k in ("_did_allocate", "_did_claim", "_did_release", "_did_close"):
            if k == "_did_claim" and x.a_shape == "claimed0":
                fl[k] = T
                continue
            fl[k] = e.sym_bool("flag" + k)
            w.set_attr(c, k, SBool(fl[k]))
        if x.a_shape in ("fresh", "sub0") and e.choose(2, "nameplate_id"):
            w.set_attr(c, "_nameplate_id", e.sym_str("c.nameplate_id"))
            e.assume(fl["_did_claim"])
        if x.a_shape in ("fresh", "claimed0") and e.choose(2, "mailbox_id"):
            w.set_attr(c, "_mailbox_id", e.sym_str("c.mailbox_id"))
    np_id, mb_id, held = c._nameplate_id, c._mailbox_id, c._mailbox
    # "?" = a symbolic type different from all known ones; "?c" = a concrete unknown type (covers
    # table-driven dispatch, where a symbolic key cannot be looked up in a native dict)
    alts = (types or ([None] + KNOWN_TYPES + ["?", "?c"]))
    ty = alts[e.choose(len(alts), "type")]
    keys = ["id", "appid", "side", "nameplate", "mailbox", "phase", "body", "mood", "ping", "junk1", "junk2"]
    pres = {k: e.sym_bool("has_" + k) for k in keys}
    val = {k: e.sym_str("val_" + k) for k in keys}
    val["ping"] = e.sym_int("val_ping")
    fields = {k: (pres[k], val[k]) for k in keys}
    from sx.world import SymMsg
    if ty is None:
        msg = SymMsg(dict(pres), dict(val))
    elif ty == "?":
        tsym = e.sym_str("val_type")
        for k in KNOWN_TYPES:
            e.assume(tsym.z != Z(k))
        p2, v2 = dict(pres), dict(val)
        p2["type"], v2["type"] = True, tsym
        msg = SymMsg(p2, v2)
    elif ty == "?c":
        msg = w.msg("no-such-command", **fields)
    else:
        msg = w.msg(ty, **fields)
    bound = x.a_shape != "unbound"
    kf = F
    if bound and ty in ("open", "close"):
        kf = And(pres["mailbox"], kf_d6_term(x, val["mailbox"]))
        if ty == "close" and mb_id is not None and held is None:
            kf = Or(kf, kf_d6_term(x, mb_id))
    before = conn_state(c)
    hashed_before = len(e.hashed)
    ex = w.deliver(c, msg)
    if ty == "?" and len(e.hashed) > hashed_before and all(z3.eq(h, tsym.z) for h in e.hashed[hashed_before:]):
        # the symbolic type was used as a key of a native dict (table-driven dispatch): this path cannot
        # be trusted, and the concrete unknown type "?c" covers it
        from sx.engine import Abort
        raise Abort()
    fr = step_frames(c)
    types_ = [ftype(r) for r in fr]
    post = w.snapshot()
    A = {}
    A["C17.no_exception"] = (ex is None)
    A["C17.wellformed"] = all(isinstance(r["frame"].get("type"), str) and "server_tx" in r["frame"] for r in fr)
    P = lambda k: pres[k]
    N = z3.Not
    # ---- reference table (docs/server-protocol.md) ----
    if ty == "?c":
        ty = "?"
    if ty is None:
        err = T
    elif ty == "ping":
        err = N(P("ping"))
    elif ty == "bind":
        err = T if bound else Or(N(P("appid")), N(P("side")))
    elif not bound:
        err = T
    elif ty == "list":
        err = F
    elif ty == "allocate":
        err = fl["_did_allocate"]
    elif ty == "claim":
        err = Or(N(P("nameplate")), fl["_did_claim"])
    elif ty == "release":
        if np_id is not None:
            err = Or(fl["_did_release"], And(P("nameplate"), val["nameplate"].z != Z(np_id)))
        else:
            err = Or(fl["_did_release"], N(P("nameplate")))
    elif ty == "open":
        err = T if held is not None else N(P("mailbox"))
    elif ty == "add":
        err = T if held is None else Or(N(P("phase")), N(P("body")))
    elif ty == "close":
        if mb_id is not None:
            err = Or(fl["_did_close"], And(P("mailbox"), val["mailbox"].z != Z(mb_id)))
        else:
            err = Or(fl["_did_close"], N(P("mailbox")))
    else:
        err = T
    if ty is None:
        A["C17.ack_first"] = (len(fr) > 0 and types_[0] == "error")
        shape = (types_ == ["error"] and fr[0]["frame"].get("orig") is msg)
    else:
        A["C17.ack_first"] = ack_ok(fr, msg)
        shape = (types_ == ["ack", "error"] and fr[1]["frame"].get("orig") is msg)
    others_quiet = all(len(step_frames(o)) == 0 for o in w.conns if o is not c)
    A["C17.proto_error"] = Implies(err, And(shape, store_unchanged(pre, post), others_quiet))
    # ... and leaves the connection exactly as usable as before
    A["C17.conn_unchanged"] = Implies(err, conn_state_same(before, conn_state(c)))
    # a command that is not a protocol error is never answered by a protocol error
    soft = ("error" in types_ and not (types_ == ["ack", "error"] and
                                      fval(fr[1], "error") in ("crowded", "reclaimed") and
                                      ty in ("claim", "open", "close")))
    A["C17.no_spurious_error"] = Implies(N(err), not soft)
    if ty == "ping":
        A["C17.pong"] = Implies(P("ping"), And(types_ == ["ack", "pong"],
                                               eqv(fval(fr[1], "pong"), val["ping"]) if len(fr) > 1 else F,
                                               store_unchanged(pre, post)))
    return finish(x, A, info=dict(type=ty, exc=type(ex).__name__ if ex else None),
                  kf=[("KF-D6", kf)], inv=False)



# =============================================================================================
# welcome (C17): the first frame of every connection carries the configured notices
# =============================================================================================
@obligation("step.welcome")
def step_welcome(e, tier="quick"):
    from sx.world import SymWorld
    has = {k: [False, True][e.choose(2, k)] for k in ("motd", "current_cli_version", "error")}
    val = {k: e.sym_str("cfg." + k) for k in has}
    cfg = {k: val[k] for k in has if has[k]}
    w = SymWorld(e, welcome=cfg)
    w.phase = "step"
    c = w.new_conn("c0")
    fr = step_frames(c)
    A = {}
    ok = len(fr) == 1 and ftype(fr[0]) == "welcome" and isinstance(fr[0]["frame"].get("welcome"), dict)
    A["C17.welcome_first"] = ok
    if ok:
        got = fr[0]["frame"]["welcome"]
        parts = []
        # motd: whenever configured (even empty); version / error: whenever configured non-empty
        exp = {}
        if has["motd"]:
            exp["motd"] = (T, val["motd"])
        for k in ("current_cli_version", "error"):
            if has[k]:
                exp[k] = (val[k].z != Z(""), val[k])
        for k in set(got) | set(exp):
            if k not in exp:
                parts.append(F)
                continue
            cond, v = exp[k]
            if k in got:
                parts.append(And(cond, eqv(got[k], v)))
            else:
                parts.append(z3.Not(cond))
        A["C17.welcome_content"] = And(*parts)
        A["C17.wellformed"] = "server_tx" in fr[0]["frame"]
    # a later message on the same connection is not preceded by another welcome
    ex = w.deliver(c, w.msg("ping", ping=e.sym_int("p")))
    A["C17.no_exception"] = ex is None
    A["C17.one_welcome"] = [ftype(r) for r in step_frames(c)] == ["welcome", "ack", "pong"]
    return PathResult(A, world=w, info=dict(has=has))
