"""Tiny file-system + sqlite3.connect model for database.py (C19, C20).

path -> File(kind in {'db', 'junk'}, data = committed Snapshot holder).  Every environment call
(os.path.exists, mkstemp, os.close, os.rename, shutil.copy, sqlite3.connect, every SQL statement,
every commit) is a numbered *event*; a crash is injected by raising Crash at event number k, after
which only committed data is left in the files (SQLite's atomic commit is trusted, POSIX rename is
atomic, a crash inside shutil.copy leaves a partial = 'junk' destination)."""
import os as _os, sqlite3 as _sqlite3
from .relstore import RelStore, Snapshot, Table
from .engine import Unsupported


class Crash(BaseException):
    pass


class File:
    def __init__(self, kind, store=None):
        self.kind = kind              # 'db' (possibly empty) or 'junk'
        self.store = store            # RelStore holding the committed content (catalog + rows)
        self.writes = 0               # how many commits reached this file


class FileConn(RelStore):
    """a connection to a database file: committed content lives in the File"""

    def __init__(self, fs, path, f):
        RelStore.__init__(self, "file:" + path)
        self.fs, self.path, self.file = fs, path, f
        if f.kind == "db" and f.store is not None:
            self._restore(f.store.committed)
            self.committed = Snapshot(self)
        self.on_event = self._tick
        self.observers.append(self._persist)

    def _tick(self, store, kind, detail):
        if kind in ("execute", "script-stmt"):
            self.fs.tick("sql", detail)
            if self.file.kind == "junk":
                d = detail.replace(" ", "").replace("`", "").lower()
                if not d.startswith("pragmaforeign_keys="):
                    # the first statement that has to read the file finds garbage
                    raise _sqlite3.DatabaseError("file is not a database")
        elif kind == "commit":
            pass
        elif kind == "close":
            self.fs.tick("close-db", self.path)

    def _persist(self, store):
        # a commit reached the disk: the file now holds this snapshot (crash point *after* it)
        holder = RelStore("data:" + self.path)
        holder._restore(self.committed)
        holder.committed = self.committed
        self.file.kind = "db"
        self.file.store = holder
        self.file.writes += 1
        self.fs.tick("committed", self.path)


class FS:
    def __init__(self, crash_at=None):
        self.files = {}
        self.events = []
        self.crash_at = crash_at
        self.tmp = 0
        self.conns = []

    def tick(self, kind, detail=""):
        i = len(self.events)
        self.events.append((kind, str(detail)[:60]))
        if self.crash_at is not None and i == self.crash_at:
            raise Crash()

    # ---- what database.py sees ----
    def install(self, mod):
        fs = self

        class _Path:
            """os.path: `exists` is an environment event, everything else is pure string manipulation"""

            def exists(self, p):
                fs.tick("exists", p)
                return p in fs.files

            def isfile(self, p):
                fs.tick("exists", p)
                return p in fs.files

            def __getattr__(self, name):
                if name in ("basename", "dirname", "join", "split", "splitext", "normpath", "abspath", "sep",
                            "isabs", "commonprefix", "relpath", "expanduser"):
                    return getattr(_os.path, name)
                raise Unsupported("os.path.%s is not modelled" % name)

        class _OS:
            path = _Path()
            sep = _os.sep
            O_RDONLY = _os.O_RDONLY

            def rename(self, a, b):
                fs.tick("rename", "%s -> %s" % (a, b))
                if a not in fs.files:
                    raise OSError("no such file")
                fs.files[b] = fs.files.pop(a)
                fs.tick("renamed", b)

            replace = rename

            def close(self, fd):
                fs.tick("close-fd", fd)

            def unlink(self, p):
                fs.tick("unlink", p)
                if p not in fs.files:
                    raise FileNotFoundError(p)
                del fs.files[p]
                fs.tick("unlinked", p)

            remove = unlink

            def listdir(self, d="."):
                fs.tick("listdir", d)
                return sorted(_os.path.basename(p) for p in fs.files if _os.path.dirname(p) == d.rstrip("/"))

            def __getattr__(self, name):
                if name in ("error", "EX_OK", "linesep", "curdir", "pardir", "extsep", "altsep", "name", "fspath"):
                    return getattr(_os, name)
                raise Unsupported("os.%s is not modelled" % name)

        FakeOS = _OS()

        class FakeTemp:
            @staticmethod
            def mkstemp(prefix="", dir=""):
                fs.tick("mkstemp", prefix)
                fs.tmp += 1
                name = _os.path.join(dir, "%stmp%d" % (prefix, fs.tmp))
                fs.files[name] = File("db", None)
                fs.tick("mkstemp-done", name)
                return 1000 + fs.tmp, name

        class FakeShutil:
            @staticmethod
            def copy(a, b):
                fs.tick("copy", "%s -> %s" % (a, b))
                src = fs.files[a]
                fs.files[b] = File("junk")                 # partially written
                fs.tick("copy-partial", b)
                dst = File(src.kind, src.store)
                fs.files[b] = dst
                fs.tick("copy-done", b)

        class FakeGlob:
            @staticmethod
            def glob(pattern, **kw):
                import fnmatch
                fs.tick("glob", pattern)
                return sorted(fnmatch.filter(list(fs.files), pattern))

            iglob = glob

            @staticmethod
            def escape(p):
                import glob as _g
                return _g.escape(p)

        class FakeSqlite:
            OperationalError = _sqlite3.OperationalError
            DatabaseError = _sqlite3.DatabaseError
            IntegrityError = _sqlite3.IntegrityError
            Row = _sqlite3.Row

            @staticmethod
            def connect(path):
                fs.tick("connect", path)
                if path == ":memory:":
                    c = RelStore("memory")
                    return c
                if path not in fs.files:
                    fs.files[path] = File("db", None)      # sqlite creates an empty file
                    fs.tick("created", path)
                c = FileConn(fs, path, fs.files[path])
                fs.conns.append(c)
                return c

        # (a module the working tree does not import is simply not there to be replaced)
        self.saved = {n: mod.__dict__[n] for n in ("os", "tempfile", "shutil", "sqlite3", "glob") if n in mod.__dict__}
        for n, fake in (("os", FakeOS), ("tempfile", FakeTemp), ("shutil", FakeShutil), ("sqlite3", FakeSqlite),
                        ("glob", FakeGlob)):
            if n in self.saved:
                setattr(mod, n, fake)
        # any other module of the standard library that reaches the file system is outside the model
        for n in ("pathlib", "io", "fnmatch", "subprocess"):
            if n in mod.__dict__ and n not in self.saved:
                raise Unsupported("database.py imports %s: file-system access outside the model" % n)

    def uninstall(self, mod):
        for n, real in self.saved.items():
            setattr(mod, n, real)

    def power_off(self):
        """after a crash: open connections vanish, uncommitted work is lost (files keep committed data)"""
        self.conns = []
        self.crash_at = None

    def listing(self):
        return sorted(self.files)


def catalog_of(store):
    """{table: [(col, type, pk, auto)]}, {index: (table, cols)}"""
    tabs = {t: [(c["name"], (c["type"] or "").upper(), bool(c["pk"]), bool(c["auto"]), c["ref"]) for c in tb.cols]
            for t, tb in store.tables.items()}
    return tabs, dict(store.indexes)
