"""Shared scenario builder and frame/invariant assertions for the step obligations."""
import z3
from sx.engine import E, SBool, SStr, SNum, Z, Inconclusive, Unsupported
from sx.world import (SymWorld, inv_db_clauses, slot_unchanged, slot_same_content, new_rows, count,
                      CHANNEL_TABLES, PROPERTY_CLAUSES, SUPPORT_CLAUSES, CRASH_CLAUSES)
from sx.run import PathResult

T, F = z3.BoolVal(True), z3.BoolVal(False)


def And(*xs):
    xs = [x for x in xs if not (isinstance(x, bool) and x)]
    if any(isinstance(x, bool) and not x for x in xs):
        return F
    return z3.And(*xs) if xs else T


def Or(*xs):
    xs = [x for x in xs if not (isinstance(x, bool) and not x)]
    if any(isinstance(x, bool) and x for x in xs):
        return T
    return z3.Or(*xs) if xs else F


def Implies(a, b):
    return z3.Implies(a, b)


class Ctx:
    """everything an assertion needs about one executed step"""
    pass


ACTING_SHAPES = ["fresh", "sub0"]
OTHER_SHAPES = ["none", "sub0s0", "sub0s1", "sub1s0"]


def build(e, K=2, S=2, M=1, crowd=0, usage=False, allow_list=True, blur=None,
          acting=None, others=None, nameplate="sym", kf_d6=True, share=None, fresh_bundles=(), ghosts=(),
          relaxed=False):
    """world + bundles + cast (in-memory state produced by the real handlers) + loaded pre-state.
    share: the Ctx of the first run of a two-run product: same bundle terms (except the indices in
    fresh_bundles, which get independent new bundles), same cast shapes, same environment draws.
    ghosts: extra connections that subscribe / bind during set-up and disconnect again, leaving idle
    registry objects behind (C11)"""
    x = Ctx()
    w = SymWorld(e, allow_list=allow_list, blur=blur, usage=usage, env=(share.w.env if share else None),
                 label="w2" if share else "w1")
    x.w, x.e = w, e
    x.syms = {}

    def sym(name):
        if share is not None and name in share.syms:
            x.syms[name] = share.syms[name]
        else:
            x.syms[name] = e.sym_str(name)
        return x.syms[name]
    if share is None:
        for k in range(K):
            w.make_bundle(S_=S, M=M, crowd=(crowd if k == 0 else 0), nameplate=nameplate, relaxed=relaxed)
    else:
        for k, b in enumerate(share.w.bundles):
            if k in fresh_bundles:
                w.make_bundle(S_=S, M=M, crowd=(crowd if k == 0 else 0), nameplate=nameplate, tag="b%d'" % k)
                w.bundles[-1].k = k
            else:
                w.bundles.append(b)
    if share is None or fresh_bundles:
        w.assume_bundle_inv(next_npid=(share.w.next_npid if share else None))
    else:
        w.next_npid = share.w.next_npid
    B = w.bundles
    if share is not None:
        a_shape, o_shape = share.a_shape, share.o_shape
    else:
        acting = acting or ACTING_SHAPES
        others = others or OTHER_SHAPES
        a_shape = acting[e.choose(len(acting), "acting")]
        o_shape = others[e.choose(len(others), "others")]
    x.a_shape, x.o_shape = a_shape, o_shape
    x.subs = []        # (conn, bundle, side slot) of connections subscribed in the pre-state
    # ghosts: come, subscribe / bind, and leave again before the pre-state is taken
    for gi, g in enumerate(ghosts):
        gc = w.new_conn("g%d" % gi)
        if g == "sub0":
            e.assume(B[0].p)
            w.bind(gc, B[0].app, B[0].sides[0].side)
            w.deliver(gc, w.msg("open", mailbox=B[0].mid))
        elif g == "sub1":
            e.assume(B[1].p)
            w.bind(gc, B[1].app, B[1].sides[0].side)
            w.deliver(gc, w.msg("open", mailbox=B[1].mid))
        elif g == "idle0":
            w.bind(gc, B[0].app, sym("g.side"))
        elif g == "idlex":
            w.bind(gc, sym("g.app"), sym("g.side"))
        w.disconnect(gc)
    # other connection first (it subscribed earlier)
    x.other = None
    if o_shape == "idle0":
        # bound to bundle 0's app, holds nothing
        o = w.new_conn("o1")
        w.bind(o, B[0].app, sym("o.side"))
        x.other = o
    elif o_shape == "sub0s0+sub1s0":
        # two connections, each subscribed to its own mailbox
        for label, bj in (("o1", 0), ("o2", 1)):
            if bj >= len(B):
                e.assume(False)
            b = B[bj]
            e.assume(b.sides[0].p)
            o = w.new_conn(label)
            w.bind(o, b.app, b.sides[0].side)
            ex = w.deliver(o, w.msg("open", mailbox=b.mid))
            if ex is not None or o._mailbox is None:
                raise Inconclusive("setup: could not subscribe connection %s (%r)" % (label, ex))
            x.subs.append((o, b, 0))
            x.other = o
    elif o_shape != "none":
        bj = {"sub0s0": 0, "sub0s1": 0, "sub1s0": 1}[o_shape]
        sj = {"sub0s0": 0, "sub0s1": 1, "sub1s0": 0}[o_shape]
        if bj >= len(B) or sj >= len(B[bj].sides):
            e.assume(False)
        b = B[bj]
        e.assume(b.sides[sj].p)
        o = w.new_conn("o1")
        w.bind(o, b.app, b.sides[sj].side)
        ex = w.deliver(o, w.msg("open", mailbox=b.mid))
        if ex is not None or o._mailbox is None:
            raise Inconclusive("setup: could not subscribe other connection (%r)" % (ex,))
        x.other = o
        x.subs.append((o, b, sj))
    if a_shape == "none":
        x.app = x.side = x.c = None
        x.pre = w.load_prestate()
        x.pre_usage = w.pre_usage
        index_bundles(w)
        return x
    c = w.new_conn("c0", open_=(a_shape != "unopened"))
    if a_shape in ("unbound", "unopened"):
        x.app, x.side = None, None
    elif a_shape == "fresh":
        x.app, x.side = sym("c.app"), sym("c.side")
        w.bind(c, x.app, x.side)
    elif a_shape == "sub0":
        b = B[0]
        e.assume(b.p)
        x.app, x.side = b.app, b.sides[0].side
        w.bind(c, x.app, x.side)
        ex = w.deliver(c, w.msg("open", mailbox=b.mid))
        if ex is not None or c._mailbox is None:
            raise Inconclusive("setup: could not subscribe acting connection (%r)" % (ex,))
        x.subs.append((c, b, 0))
    elif a_shape == "reopened0":
        # opened, closed and opened again on the same connection (the once-only flag of close is spent,
        # the connection is subscribed again)
        b = B[0]
        e.assume(b.p)
        if o_shape == "sub0s0":
            # (during set-up that close would be the last one of the only side and retire the mailbox
            # under the other connection of the same side: not the shape this cast is meant to build)
            e.assume(False)
        x.app, x.side = b.app, b.sides[0].side
        w.bind(c, x.app, x.side)
        w.deliver(c, w.msg("open", mailbox=b.mid))
        w.deliver(c, w.msg("close"))
        ex = w.deliver(c, w.msg("open", mailbox=b.mid))
        if ex is not None or c._mailbox is None:
            raise Inconclusive("setup: could not re-subscribe acting connection (%r)" % (ex,))
        x.subs.append((c, b, 0))
    elif a_shape == "claimed0":
        # the connection claimed b0.name earlier (the nameplate may or may not still exist)
        b = B[0]
        x.app, x.side = b.app, b.sides[0].side
        w.bind(c, x.app, x.side)
        ex = w.deliver(c, w.msg("claim", nameplate=b.name))
        if ex is not None or not c._did_claim:
            raise Inconclusive("setup: could not claim for acting connection (%r)" % (ex,))
    else:
        raise ValueError(a_shape)
    x.c = c
    x.pre = w.load_prestate()
    x.pre_usage = w.pre_usage
    index_bundles(w)
    return x


def index_bundles(w):
    """remember which slot of which table belongs to which bundle"""
    pos = {t: 0 for t in CHANNEL_TABLES}
    for b in w.bundles:
        b.ix = {}
        b.ix["mailboxes"] = pos["mailboxes"]; pos["mailboxes"] += 1
        b.ix["nameplates"] = pos["nameplates"]; pos["nameplates"] += 1
        b.ix["mailbox_sides"], b.ix["nameplate_sides"], b.ix["messages"] = [], [], []
        for s in b.sides:
            b.ix["mailbox_sides"].append(pos["mailbox_sides"]); pos["mailbox_sides"] += 1
            b.ix["nameplate_sides"].append(pos["nameplate_sides"]); pos["nameplate_sides"] += 1
        for m in b.msgs:
            b.ix["messages"].append(pos["messages"]); pos["messages"] += 1
    w.npre = dict(pos)


def kf_d6_term(x, mid):
    """signature of known finding KF-D6: the command names a mailbox id stored under another app"""
    if x.app is None:
        return F
    return Or(*[And(b.p, b.mid.z == Z(mid), b.app.z != Z(x.app)) for b in x.w.bundles])


# ---------------------------------------------------------------------------------------------
# views of a bundle in a snapshot
# ---------------------------------------------------------------------------------------------
def rows_of(b, snap, table):
    ix = b.ix[table]
    rows = snap.tables[table]
    if isinstance(ix, list):
        return [rows[i] for i in ix]
    return rows[ix]


def bundle_unchanged(b, pre, post, ignore_updated=False):
    parts = []
    for t in CHANNEL_TABLES:
        ix = b.ix[t]
        for i in (ix if isinstance(ix, list) else [ix]):
            a, c = pre.tables[t][i], post.tables[t][i]
            if t == "mailboxes" and ignore_updated:
                eqs = [a.v[k] == c.v[k] for k in a.v if k != "updated"] + [a.n[k] == c.n[k] for k in a.n]
                parts.append(And(a.p == c.p, Implies(a.p, And(*eqs))))
            else:
                parts.append(slot_unchanged(a, c))
    return And(*parts)


def bundle_absent(b, post):
    parts = []
    for t in CHANNEL_TABLES:
        ix = b.ix[t]
        for i in (ix if isinstance(ix, list) else [ix]):
            parts.append(z3.Not(post.tables[t][i].p))
    return And(*parts)


def mailbox_gone(b, post):
    return z3.Not(post.tables["mailboxes"][b.ix["mailboxes"]].p)


def nameplate_gone(b, post):
    return z3.Not(post.tables["nameplates"][b.ix["nameplates"]].p)


def no_new_rows(pre, post, tables=CHANNEL_TABLES):
    return all(len(post.tables[t]) == len(pre.tables[t]) for t in tables)


def store_unchanged(pre, post):
    """every pre slot unchanged and no new row"""
    if not no_new_rows(pre, post):
        return F
    parts = []
    for t in CHANNEL_TABLES:
        for a, c in zip(pre.tables[t], post.tables[t]):
            parts.append(slot_unchanged(a, c))
    return And(*parts)


# ---------------------------------------------------------------------------------------------
# generic frame conditions (what any operation may do to rows it is not aimed at)
# ---------------------------------------------------------------------------------------------
def frame_messages(w, pre, post):
    """C01(c): a stored message changes only by being deleted, and only together with its
    mailbox row and all messages of that mailbox"""
    parts = []
    for b in w.bundles:
        ms_pre, ms_post = rows_of(b, pre, "messages"), rows_of(b, post, "messages")
        all_gone = And(mailbox_gone(b, post), *[z3.Not(r.p) for r in ms_post])
        for a, c in zip(ms_pre, ms_post):
            parts.append(Implies(a.p, Or(slot_unchanged(a, c), And(z3.Not(c.p), all_gone))))
            parts.append(Implies(z3.Not(a.p), z3.Not(c.p)))
        # the other direction: no message of a deleted mailbox survives
        parts.append(Implies(And(b.p, mailbox_gone(b, post)), And(*[z3.Not(r.p) for r in ms_post])))
    return And(*parts)


def frame_nameplate_rows(w, pre, post):
    """C03: a nameplate row's (app, name, mailbox_id) never changes; it can only be deleted"""
    parts = []
    for b in w.bundles:
        a, c = rows_of(b, pre, "nameplates"), rows_of(b, post, "nameplates")
        parts.append(Implies(a.p, Or(z3.Not(c.p), slot_unchanged(a, c))))
        parts.append(Implies(z3.Not(a.p), z3.Not(c.p)))
    return And(*parts)


def frame_side_rows(w, pre, post):
    """C05: side rows are removed only together with their mailbox / nameplate; identity columns
    (owner, side, added) never change"""
    parts = []
    for b in w.bundles:
        for a, c in zip(rows_of(b, pre, "mailbox_sides"), rows_of(b, post, "mailbox_sides")):
            same = And(c.p, *[a.v[k] == c.v[k] for k in ("mailbox_id", "side", "added")])
            parts.append(Implies(a.p, Or(same, And(z3.Not(c.p), mailbox_gone(b, post)))))
            parts.append(Implies(z3.Not(a.p), z3.Not(c.p)))
        for a, c in zip(rows_of(b, pre, "nameplate_sides"), rows_of(b, post, "nameplate_sides")):
            same = And(c.p, *[a.v[k] == c.v[k] for k in ("nameplates_id", "side", "added")])
            parts.append(Implies(a.p, Or(same, And(z3.Not(c.p), nameplate_gone(b, post)))))
            parts.append(Implies(z3.Not(a.p), z3.Not(c.p)))
    return And(*parts)


def frame_other_apps(w, pre, post, app):
    """C06 local respect: a command of app A leaves every row owned by another app unchanged"""
    if app is None:
        return store_unchanged(pre, post)
    parts = []
    for b in w.bundles:
        parts.append(Implies(b.app.z != Z(app), bundle_unchanged(b, pre, post)))
    return And(*parts)


def frame_other_bundles(w, pre, post, target):
    """an operation aimed at one mailbox/nameplate leaves every other bundle untouched.
    target: function bundle -> term 'this bundle is the one the command is aimed at'"""
    parts = []
    for b in w.bundles:
        parts.append(Implies(z3.Not(target(b)), bundle_unchanged(b, pre, post)))
    return And(*parts)


def claims_frame(w, pre, post, released=None):
    """C07: a claim flag changes only by the holder's own release; a nameplate (with its claim
    rows) disappears only by its last release or together with its own mailbox.
    released: None or function (bundle, side-slot) -> term 'this op releases exactly this claim'"""
    parts = []
    for b in w.bundles:
        nsp, nsq = rows_of(b, pre, "nameplate_sides"), rows_of(b, post, "nameplate_sides")
        npp, npq = rows_of(b, pre, "nameplates"), rows_of(b, post, "nameplates")
        # which claims remain after this op's release
        rel = [released(b, i) if released else F for i in range(len(nsp))]
        remaining = Or(*[And(r.p, r.v["claimed"] != 0, z3.Not(rel[i])) for i, r in enumerate(nsp)])
        this_np_released = Or(*rel) if released else F
        np_may_go = Or(And(this_np_released, z3.Not(remaining)), mailbox_gone(b, post))
        parts.append(Implies(And(npp.p, z3.Not(npq.p)), np_may_go))
        parts.append(Implies(And(npp.p, z3.Not(np_may_go)), npq.p))
        for i, (a, c) in enumerate(zip(nsp, nsq)):
            flipped = And(c.p, c.v["claimed"] == 0,
                          *[a.v[k] == c.v[k] for k in a.v if k != "claimed"])
            parts.append(Implies(a.p, Or(slot_unchanged(a, c),
                                         And(rel[i], flipped),
                                         And(z3.Not(c.p), nameplate_gone(b, post)))))
            # a claim that is not being released and whose nameplate survives keeps its flag
            parts.append(Implies(And(a.p, z3.Not(rel[i]), npq.p), slot_unchanged(a, c)))
    return And(*parts)


def inv_post(w, post):
    return inv_db_clauses(post)


# ---------------------------------------------------------------------------------------------
# INV_MEM on the live objects (path-level; look-ups with symbolic keys are decisions)
# ---------------------------------------------------------------------------------------------
def inv_mem(w, post):
    res = dict(M1=True, M2=True, M3=True, M4=True, M5=True)
    srv = w.server
    live = list(w.conns)
    for k, ns in srv._apps.items():
        eq = (k == ns._app_id)
        if not (eq is True or bool(eq)):
            res["M1"] = False
    for c in live:
        if c._app is not None:
            if srv._apps.get(c._app._app_id) is not c._app:
                res["M2"] = False
    for k, ns in srv._apps.items():
        for mk, mb in ns._mailboxes.items():
            eq = (mk == mb._mailbox_id)
            if not (eq is True or bool(eq)) or mb._app is not ns:
                res["M3"] = False
            for h in mb._listeners.keys():
                if h not in live or h._mailbox is not mb or not h._listening:
                    res["M5"] = False
    m4 = []
    for c in live:
        if c._mailbox is not None:
            mb = c._mailbox
            if not c._listening or c not in mb._listeners:
                res["M4"] = False
                continue
            if c._app is None or c._app._mailboxes.get(mb._mailbox_id) is not mb:
                res["M4"] = False
                continue
            mid, app, side = Z(mb._mailbox_id), Z(mb._app_id), Z(c._side)
            has_mb = Or(*[And(r.p, r.v["id"] == mid, r.v["app_id"] == app) for r in post.tables["mailboxes"]])
            has_side = Or(*[And(r.p, r.v["mailbox_id"] == mid, r.v["side"] == side)
                            for r in post.tables["mailbox_sides"]])
            m4.append(And(has_mb, has_side))
    if res["M4"] and m4:
        res["M4"] = And(*m4)
    return res


# ---------------------------------------------------------------------------------------------
def step_frames(c):
    return [r for r in c.frames if r["phase"] == "step"]


def ftype(rec):
    t = rec["frame"].get("type")
    if not isinstance(t, str) or isinstance(t, SStr):
        raise Unsupported("frame type is not a constant")
    return t


def fval(rec, key):
    return rec["frame"].get(key)


def eqv(a, b):
    """term: two values (proxy / python / None) are equal (values of different storage classes never are)"""
    from sx.engine import kind_of
    if a is None or b is None:
        return T if (a is None and b is None) else F
    ka, kb = kind_of(a), kind_of(b)
    if (ka == "s") != (kb == "s"):
        return F
    za, zb = Z(a), Z(b)
    if za.sort() != zb.sort():
        za = z3.ToReal(za) if z3.is_int(za) else za
        zb = z3.ToReal(zb) if z3.is_int(zb) else zb
    return za == zb


def col_value(snap, table, r, col):
    """python value / proxy of a snapshot row's column (kind-aware)"""
    from sx.engine import W
    kinds = {c["name"]: c["sort"] for c in snap.catalog[table]}
    return W(r.v[col], kinds[col])


# ---------------------------------------------------------------------------------------------
# usage records (C15 / C16): reference summaries as z3 terms
# ---------------------------------------------------------------------------------------------
def two_smallest(items):
    """items: [(present, value)] -> (n, t0, t1): count of present values, smallest and second
    smallest present value (t0/t1 meaningless when n < 1 / n < 2)"""
    n = count([p for p, _ in items])
    BIG = None
    t0, has0 = z3.RealVal(0), F
    t1, has1 = z3.RealVal(0), F
    for p, v in items:
        # insert v into the running (t0, t1)
        lt0 = Or(z3.Not(has0), v < t0)
        lt1 = Or(z3.Not(has1), v < t1)
        nt0 = z3.If(And(p, lt0), v, t0)
        nt1 = z3.If(p, z3.If(lt0, t0, z3.If(lt1, v, t1)), t1)
        nh1 = z3.If(p, z3.If(lt0, has0, T), has1)
        nh0 = Or(has0, p)
        t0, t1, has0, has1 = nt0, nt1, nh0, nh1
    return n, t0, t1


def blurred(t, blur):
    """the stored start time: exactly the code's expression  blur * (t // blur)  (symbolic interval:
    uninterpreted umul/ufdiv, see engine; the arithmetic itself is the C16 kernel obligation)"""
    if blur is None:
        return t
    return Z(blur * (SNum(t) // blur))


def S_(s):
    return Z(s)


def nameplate_summary(rows, when, pruned, blur):
    """rows: [(present, added)] -> dict of expected usage column terms"""
    n, t0, t1 = two_smallest(rows)
    result = z3.If(n > 2, S_("crowded"), z3.If(pruned, S_("pruney"), z3.If(n == 2, S_("happy"), S_("lonely"))))
    return dict(n=n, started=blurred(t0, blur), raw_started=t0, waiting_null=z3.Not(n > 1), waiting=t1 - t0,
                total=when - t0, result=result)


def mailbox_summary(rows, when, pruned, blur):
    """rows: [(present, added, mood_null, mood)]"""
    n, t0, t1 = two_smallest([(p, a) for p, a, _, _ in rows])
    t0 = z3.If(n == 0, when, t0)       # a mailbox without any side row (crash state) starts when it is retired
    def any_mood(m):
        return Or(*[And(p, z3.Not(mn), mv == S_(m)) for p, _, mn, mv in rows])
    base = z3.If(n == 0, S_("quiet"), z3.If(n == 1, S_("lonely"), S_("happy")))
    r = z3.If(any_mood("lonely"), S_("lonely"), base)
    r = z3.If(any_mood("errory"), S_("errory"), r)
    r = z3.If(any_mood("scary"), S_("scary"), r)
    r = z3.If(pruned, S_("pruney"), r)
    r = z3.If(n > 2, S_("crowded"), r)
    return dict(n=n, started=blurred(t0, blur), raw_started=t0, waiting_null=z3.Not(n > 1), waiting=t1 - t0,
                total=when - t0, result=r)


def usage_row_matches(r, app, summ, for_np=None):
    parts = [r.p, z3.Not(r.n["app_id"]), r.v["app_id"] == Z(app),
             z3.Not(r.n["started"]), r.v["started"] == summ["started"],
             z3.Not(r.n["total_time"]), r.v["total_time"] == summ["total"],
             r.n["waiting_time"] == summ["waiting_null"],
             Implies(z3.Not(summ["waiting_null"]), r.v["waiting_time"] == summ["waiting"]),
             z3.Not(r.n["result"]), r.v["result"] == summ["result"]]
    if for_np is not None:
        parts += [z3.Not(r.n["for_nameplate"]), (r.v["for_nameplate"] != 0) == for_np]
    return And(*parts)


def usage_asserts(A, x, pre, post, when, pruned, blur, own_mood=None, transient_mb=None):
    """C15/C16: new usage rows <-> nameplates / mailboxes deleted by this operation.
    own_mood: (bundle-side predicate list builder) for close: the closing side's row carries the
    command's mood when the summary is taken: function (bundle, slot index) -> None | (mood_null, mood)"""
    w = x.w
    if w.usage is None:
        return
    upre, upost = x.pre_usage, w.usage.snapshot()
    new_np = upost.tables["nameplates"][len(upre.tables["nameplates"]):]
    new_mb = upost.tables["mailboxes"][len(upre.tables["mailboxes"]):]
    np_del, mb_del = [], []
    for b in w.bundles:
        gone_np = And(b.has_np, nameplate_gone(b, post))
        rows = [(r.p, r.v["added"]) for r in rows_of(b, pre, "nameplate_sides")]
        np_del.append((gone_np, b, nameplate_summary(rows, when, pruned, blur)))
        gone_mb = And(b.p, mailbox_gone(b, post))
        mrows = []
        for i, r in enumerate(rows_of(b, pre, "mailbox_sides")):
            mn, mv = r.n["mood"], r.v["mood"]
            if own_mood is not None:
                o = own_mood(b, i)
                if o is not None:
                    cond, (omn, omv) = o
                    mn, mv = z3.If(cond, omn, mn), z3.If(cond, omv, mv)
            # row.get("mood") is falsy for NULL and for the empty string
            mrows.append((r.p, r.v["added"], Or(mn, mv == S_("")), mv))
        mb_del.append((gone_mb, b, mailbox_summary(mrows, when, pruned, blur)))
    class _B:      # a mailbox created and retired inside this very operation (close of an unknown id)
        pass
    for (cond, app, rows_, fornp) in (transient_mb or []):
        tb = _B()
        tb.app, tb.for_np = app, fornp
        mb_del.append((cond, tb, mailbox_summary(rows_, when, pruned, blur)))
    parts = [count([r.p for r in new_np]) == count([c for c, _, _ in np_del]),
             count([r.p for r in new_mb]) == count([c for c, _, _ in mb_del])]
    for c, b, sm in np_del:
        parts.append(Implies(c, Or(*[usage_row_matches(r, b.app, sm) for r in new_np])))
    for r in new_np:
        parts.append(Implies(r.p, Or(*[And(c, usage_row_matches(r, b.app, sm)) for c, b, sm in np_del])))
    for c, b, sm in mb_del:
        parts.append(Implies(c, Or(*[usage_row_matches(r, b.app, sm, for_np=b.for_np) for r in new_mb])))
    for r in new_mb:
        parts.append(Implies(r.p, Or(*[And(c, usage_row_matches(r, b.app, sm, for_np=b.for_np))
                                       for c, b, sm in mb_del])))
    A["C15.records"] = And(*parts)
    # C16: every new start time is the blur expression applied to the true arrival time; that this
    # expression rounds down to a multiple of the interval is the C16 arithmetic kernel
    if blur is not None:
        bl = []
        for rows_, dels in ((new_np, np_del), (new_mb, mb_del)):
            for r in rows_:
                bl.append(Implies(r.p, Or(*[And(c, r.v["started"] == sm["started"]) for c, b, sm in dels])))
        A["C16.blurred"] = And(*bl)
    A["C15.committed"] = not (w.usage.dirty or w.usage.in_tx)
