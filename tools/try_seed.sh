#!/bin/bash
# usage: tools/try_seed.sh <seed-dir-name> <property> [check args...]
# applies seeded/<name>/patch.diff to /repo, runs ./check <property>, reverts.  /repo must be clean.
set -u
name=$1; shift
cd /verif
if [ -n "$(git -C /repo status --porcelain -- src)" ]; then echo "REFUSING: /repo/src has uncommitted changes"; exit 3; fi
git -C /repo apply /verif/seeded/$name/patch.diff || { echo "patch does not apply"; exit 3; }
./check "$@" --no-evidence 2>&1 | grep -E "VIOLATION|KNOWN|HARNESS|INCONCL|tier=|assertion" | cut -c1-330
rc=${PIPESTATUS[0]}
git -C /repo checkout -- src
echo "exit=$rc"
