"""Kernel obligations on single real functions (C15 classification, C16 blur arithmetic)."""
import z3
from sx.engine import E, Engine, IntName, SBool, SStr, SNum, SOpt, Z, Inconclusive, Unsupported
from sx.run import obligation, PathResult
from sx.relstore import RowView, RelStore
from sx.world import SymWorld, REAL_APPNS, NullLog
from .common import *
import wormhole_mailbox_server.server as S
import wormhole_mailbox_server.database as DBM


def _mk_app(e, blur):
    S.log = NullLog()
    S.int = IntName        # `int(x)` of a symbolic number stays symbolic (delegates to the builtin otherwise)
    return REAL_APPNS(None, None, blur, False, e.sym_str("app"), True)


def _kernel_replayer(which, rows_spec, when, pruned, B, u, exc=None):
    """replay script: concrete side rows / time / flag / interval and the values the symbolic run predicts"""
    def replayer(dec):
        from sx.engine import conc
        rows = []
        for spec in rows_spec:
            d = {}
            for k, (nullbit, val, kind) in spec.items():
                if nullbit is not None and dec.num(nullbit):
                    d[k] = None
                elif kind == "s":
                    d[k] = dec.string(val)
                else:
                    v = dec.num(val)
                    d[k] = float(v) if not isinstance(v, int) else v
            rows.append(d)
        def fv(x):
            if x is None:
                return None
            v = conc(dec, x)
            return float(v) if hasattr(v, "numerator") and not isinstance(v, (int, bool)) else v
        if exc is not None:
            pred = dict(exc=type(exc).__name__)
        else:
            pred = dict(started=fv(u.started), waiting_time=fv(u.waiting_time), total_time=fv(u.total_time),
                        result=fv(u.result))
        w = dec.num(when.z)
        return dict(kind="kernel", which=which, rows=rows, when=float(w) if not isinstance(w, int) else w,
                    pruned=bool(dec.num(pruned)), blur=(dec.num(B.z) if B is not None else None), predicted=pred)
    return replayer


def run_kernel_script(sc):
    import wormhole_mailbox_server.server as S_
    app = REAL_APPNS(None, None, sc["blur"], False, "app", True)
    fn = app._summarize_mailbox if sc["which"] == "mailbox" else app._summarize_nameplate_usage
    try:
        u = fn(sc["rows"], sc["when"], sc["pruned"])
        return dict(started=u.started, waiting_time=u.waiting_time, total_time=u.total_time, result=u.result)
    except Exception as ex:
        return dict(exc=type(ex).__name__)


def _field(v):
    """(nullbit, term) of a returned Usage field"""
    if v is None:
        return T, z3.RealVal(0)
    if isinstance(v, SOpt):
        return v.null, Z(v.value)
    return F, Z(v)


@obligation("kernel.summarize_mailbox")
def kernel_summarize_mailbox(e, n=3, blur="none"):
    """the real _summarize_mailbox on n symbolic side rows vs the documented precedence"""
    B = None
    if blur == "sym":
        B = e.sym_int("blur")
        e.assume(z3.And(B.z >= 1, B.z <= 86400))
    app = _mk_app(e, B)
    rows, ref_rows, specs = [], [], []
    kinds = dict(mailbox_id="s", opened="i", side="s", added="r", mood="s")
    for i in range(n):
        added = e.sym_real("added%d" % i)
        mood, mood_null = e.sym_str("mood%d" % i), e.sym_bool("moodnull%d" % i)
        vals = dict(mailbox_id=Z("m"), opened=z3.IntVal(0), side=e.sym_str("side%d" % i).z, added=added.z, mood=mood.z)
        nulls = {k: F for k in vals}
        nulls["mood"] = mood_null
        rows.append(RowView(None, vals, nulls, list(vals), kinds))
        specs.append(dict(added=(None, added.z, "r"), mood=(mood_null, mood.z, "s")))
        ref_rows.append((T, added.z, Or(mood_null, mood.z == Z("")), mood.z))
    when = e.sym_real("when")
    pruned = e.sym_bool("pruned")
    try:
        u = app._summarize_mailbox(rows, when, SBool(pruned))
    except Exception as ex:
        # a summary that raises leaves the deletes it follows in an open transaction (C09) and the
        # retired object without its record (C15); inside the sweep it aborts the pass (C13)
        return PathResult({"C15.total_function": False, "C09.summary_total": False, "C13.summary_total": False},
                          info=dict(n=n, exc=type(ex).__name__),
                          replayer=_kernel_replayer("mailbox", specs, when, pruned, B, None, exc=ex))
    ref = mailbox_summary(ref_rows, when.z, pruned, B)
    A = {"C15.total_function": True, "C09.summary_total": True, "C13.summary_total": True}
    A["C15.result"] = eqv(u.result, SStr(ref["result"]))
    wn, wv = _field(u.waiting_time)
    A["C15.waiting"] = And(wn == ref["waiting_null"], Implies(z3.Not(wn), wv == ref["waiting"]))
    A["C15.total"] = Z(u.total_time) == ref["total"]
    A["C15.started"] = Z(u.started) == ref["started"]
    A["C16.started"] = A["C15.started"]
    return PathResult(A, info=dict(n=n), replayer=_kernel_replayer("mailbox", specs, when, pruned, B, u))


@obligation("kernel.summarize_nameplate")
def kernel_summarize_nameplate(e, n=3, blur="none"):
    B = None
    if blur == "sym":
        B = e.sym_int("blur")
        e.assume(z3.And(B.z >= 1, B.z <= 86400))
    app = _mk_app(e, B)
    rows, ref_rows, specs = [], [], []
    kinds = dict(nameplates_id="i", claimed="i", side="s", added="r")
    for i in range(n):
        added = e.sym_real("added%d" % i)
        vals = dict(nameplates_id=z3.IntVal(1), claimed=z3.IntVal(0), side=e.sym_str("side%d" % i).z, added=added.z)
        rows.append(RowView(None, vals, {k: F for k in vals}, list(vals), kinds))
        specs.append(dict(added=(None, added.z, "r")))
        ref_rows.append((T, added.z))
    when = e.sym_real("when")
    pruned = e.sym_bool("pruned")
    try:
        u = app._summarize_nameplate_usage(rows, when, SBool(pruned))
    except Exception as ex:
        return PathResult({"C15.total_function": False, "C09.summary_total": False, "C13.summary_total": False},
                          info=dict(n=n, exc=type(ex).__name__),
                          replayer=_kernel_replayer("nameplate", specs, when, pruned, B, None, exc=ex))
    ref = nameplate_summary(ref_rows, when.z, pruned, B)
    A = {"C15.total_function": True, "C09.summary_total": True, "C13.summary_total": True}
    A["C15.result"] = eqv(u.result, SStr(ref["result"]))
    wn, wv = _field(u.waiting_time)
    A["C15.waiting"] = And(wn == ref["waiting_null"], Implies(z3.Not(wn), wv == ref["waiting"]))
    A["C15.total"] = Z(u.total_time) == ref["total"]
    A["C15.started"] = Z(u.started) == ref["started"]
    A["C16.started"] = A["C15.started"]
    return PathResult(A, info=dict(n=n), replayer=_kernel_replayer("nameplate", specs, when, pruned, B, u))


@obligation("kernel.blur")
def kernel_blur(e, site="nameplate"):
    """the arithmetic of `blur * (t // blur)` as executed by the real functions, with exact
    (non-abstracted) semantics: the stored value v is a multiple of the interval, v <= t < v + B"""
    Engine.exact_arith = True
    try:
        B = e.sym_int("blur")
        e.assume(z3.And(B.z >= 1, B.z <= 86400))
        t = e.sym_real("t")
        e.assume(t.z >= 0)
        app = _mk_app(e, B)
        WHEN = [e.sym_real("when")]
        if site == "nameplate":
            kinds = dict(nameplates_id="i", claimed="i", side="s", added="r")
            vals = dict(nameplates_id=z3.IntVal(1), claimed=z3.IntVal(0), side=Z("s"), added=t.z)
            u = REAL_APPNS._summarize_nameplate_usage(app, [RowView(None, vals, {k: F for k in vals}, list(vals), kinds)],
                                                      WHEN[0], False)
            v = Z(u.started)
        elif site == "mailbox":
            kinds = dict(mailbox_id="s", opened="i", side="s", added="r", mood="s")
            vals = dict(mailbox_id=Z("m"), opened=z3.IntVal(0), side=Z("s"), added=t.z, mood=Z(""))
            nulls = {k: F for k in vals}
            nulls["mood"] = T
            u = REAL_APPNS._summarize_mailbox(app, [RowView(None, vals, nulls, list(vals), kinds)],
                                              WHEN[0], False)
            v = Z(u.started)
        else:
            usage = RelStore("usage")
            usage.load_schema(DBM.get_schema("usage", DBM.USAGEDB_TARGET_VERSION))
            app._usage_db = usage
            app.log_client_version(t, e.sym_str("side"), (e.sym_str("impl"), e.sym_str("ver")))
            rows = usage.tables["client_versions"].rows
            if len(rows) != 1:
                return PathResult({"C16.rounding": False})
            v = rows[0].v["connect_time"]
        Br = z3.ToReal(B.z)
        q = z3.ToInt(v / Br)
        A = {"C16.rounding": And(v <= t.z, t.z < v + Br, z3.ToReal(q) * Br == v)}
        rp = None
        if site in ("nameplate", "mailbox"):
            spec = dict(added=(None, t.z, "r"))
            if site == "mailbox":
                spec["mood"] = (T, Z(""), "s")
            rp = _kernel_replayer(site, [spec], WHEN[0], F, B, u)
        return PathResult(A, info=dict(site=site), replayer=rp)
    finally:
        Engine.exact_arith = False
