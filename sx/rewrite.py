"""Set comprehensions and set displays cannot be intercepted by patching the module's `set` name (they
build a native set directly), and a native set of proxies mixes up look-ups of concrete strings
(different hash) with symbolic members.  At load time every function of the server modules that
contains one is recompiled from its own source with `{x for ...}` -> `set(x for ...)` and `{a, b}` ->
`set([a, b])` — the same value by the language definition — so that the patched `set` (SymSet) sees
them.  Functions without such syntax are left untouched (nothing is rewritten on the pinned tree)."""
import ast, inspect, textwrap, types


class _T(ast.NodeTransformer):
    def __init__(self):
        self.hit = False
        self.zero_super = False

    def visit_SetComp(self, node):
        self.generic_visit(node)
        self.hit = True
        return ast.copy_location(ast.Call(func=ast.Name(id="set", ctx=ast.Load()),
                                          args=[ast.GeneratorExp(elt=node.elt, generators=node.generators)],
                                          keywords=[]), node)

    def visit_Set(self, node):
        self.generic_visit(node)
        self.hit = True
        return ast.copy_location(ast.Call(func=ast.Name(id="set", ctx=ast.Load()),
                                          args=[ast.List(elts=node.elts, ctx=ast.Load())], keywords=[]), node)

    def visit_Call(self, node):
        if isinstance(node.func, ast.Name) and node.func.id == "super" and not node.args:
            self.zero_super = True
        return self.generic_visit(node)


def _rewrite_function(fn, wrapped=False):
    try:
        src = textwrap.dedent(inspect.getsource(fn))
        tree = ast.parse(src)
    except (OSError, TypeError, SyntaxError, IndentationError):
        return None
    t = _T()
    tree = t.visit(tree)
    if not t.hit or t.zero_super or fn.__closure__:
        return None
    fd = tree.body[0]
    if not isinstance(fd, (ast.FunctionDef,)):
        return None
    if fd.decorator_list and not wrapped:
        return None               # a decorated function: what the decorator does to it is not ours to redo
    fd.decorator_list = []
    ast.fix_missing_locations(tree)
    ast.increment_lineno(tree, fn.__code__.co_firstlineno - 1)
    ns = {}
    exec(compile(tree, fn.__code__.co_filename, "exec"), fn.__globals__, ns)
    new = ns.get(fn.__name__)
    if not isinstance(new, types.FunctionType):
        return None
    new.__qualname__ = fn.__qualname__
    new.__defaults__ = fn.__defaults__
    new.__kwdefaults__ = fn.__kwdefaults__
    return new


def rewrite_set_displays(mod):
    """returns the qualified names of the functions that were recompiled"""
    done = []
    for name, obj in list(vars(mod).items()):
        if isinstance(obj, types.FunctionType) and obj.__module__ == mod.__name__:
            new = _rewrite_function(obj)
            if new is not None:
                setattr(mod, name, new)
                done.append(obj.__qualname__)
        elif isinstance(obj, type) and obj.__module__ == mod.__name__:
            for mname, m in list(vars(obj).items()):
                raw = m.__func__ if isinstance(m, (staticmethod, classmethod)) else m
                if not isinstance(raw, types.FunctionType):
                    continue
                new = _rewrite_function(raw, wrapped=isinstance(m, (staticmethod, classmethod)))
                if new is None:
                    continue
                if isinstance(m, staticmethod):
                    new = staticmethod(new)
                elif isinstance(m, classmethod):
                    new = classmethod(new)
                setattr(obj, mname, new)
                done.append(raw.__qualname__)
    return done
