"""Shared scenario builder and frame/invariant assertions for the step obligations."""
import z3
from sx.engine import E, SBool, SStr, SNum, Z, Inconclusive, Unsupported
from sx.world import (SymWorld, inv_db_clauses, slot_unchanged, slot_same_content, new_rows, count,
                      CHANNEL_TABLES, PROPERTY_CLAUSES, SUPPORT_CLAUSES)
from sx.run import PathResult

T, F = z3.BoolVal(True), z3.BoolVal(False)


def And(*xs):
    xs = [x for x in xs if not (isinstance(x, bool) and x)]
    if any(isinstance(x, bool) and not x for x in xs):
        return F
    return z3.And(*xs) if xs else T


def Or(*xs):
    xs = [x for x in xs if not (isinstance(x, bool) and not x)]
    if any(isinstance(x, bool) and x for x in xs):
        return T
    return z3.Or(*xs) if xs else F


def Implies(a, b):
    return z3.Implies(a, b)


class Ctx:
    """everything an assertion needs about one executed step"""
    pass


ACTING_SHAPES = ["fresh", "sub0"]
OTHER_SHAPES = ["none", "sub0s0", "sub0s1", "sub1s0"]


def build(e, K=2, S=2, M=1, crowd=0, usage=False, allow_list=True, blur=None,
          acting=None, others=None, nameplate="sym", kf_d6=True):
    """world + bundles + cast (in-memory state produced by the real handlers) + loaded pre-state"""
    x = Ctx()
    w = SymWorld(e, allow_list=allow_list, blur=blur, usage=usage)
    x.w, x.e = w, e
    for k in range(K):
        w.make_bundle(S_=S, M=M, crowd=(crowd if k == 0 else 0), nameplate=nameplate)
    w.assume_bundle_inv()
    B = w.bundles
    acting = acting or ACTING_SHAPES
    others = others or OTHER_SHAPES
    a_shape = acting[e.choose(len(acting), "acting")]
    o_shape = others[e.choose(len(others), "others")]
    x.a_shape, x.o_shape = a_shape, o_shape
    x.subs = []        # (conn, bundle, side slot) of connections subscribed in the pre-state
    # other connection first (it subscribed earlier)
    x.other = None
    if o_shape != "none":
        bj = {"sub0s0": 0, "sub0s1": 0, "sub1s0": 1}[o_shape]
        sj = {"sub0s0": 0, "sub0s1": 1, "sub1s0": 0}[o_shape]
        if bj >= len(B) or sj >= len(B[bj].sides):
            e.assume(False)
        b = B[bj]
        e.assume(b.sides[sj].p)
        o = w.new_conn("o1")
        w.bind(o, b.app, b.sides[sj].side)
        ex = w.deliver(o, w.msg("open", mailbox=b.mid))
        if ex is not None or o._mailbox is None:
            raise Inconclusive("setup: could not subscribe other connection (%r)" % (ex,))
        x.other = o
        x.subs.append((o, b, sj))
    c = w.new_conn("c0", open_=(a_shape != "unopened"))
    if a_shape in ("unbound", "unopened"):
        x.app, x.side = None, None
    elif a_shape == "fresh":
        x.app, x.side = e.sym_str("c.app"), e.sym_str("c.side")
        w.bind(c, x.app, x.side)
    elif a_shape == "sub0":
        b = B[0]
        e.assume(b.p)
        x.app, x.side = b.app, b.sides[0].side
        w.bind(c, x.app, x.side)
        ex = w.deliver(c, w.msg("open", mailbox=b.mid))
        if ex is not None or c._mailbox is None:
            raise Inconclusive("setup: could not subscribe acting connection (%r)" % (ex,))
        x.subs.append((c, b, 0))
    elif a_shape == "claimed0":
        # the connection claimed b0.name earlier (the nameplate may or may not still exist)
        b = B[0]
        x.app, x.side = b.app, b.sides[0].side
        w.bind(c, x.app, x.side)
        ex = w.deliver(c, w.msg("claim", nameplate=b.name))
        if ex is not None or not c._did_claim:
            raise Inconclusive("setup: could not claim for acting connection (%r)" % (ex,))
    else:
        raise ValueError(a_shape)
    x.c = c
    x.pre = w.load_prestate()
    x.pre_usage = w.pre_usage
    index_bundles(w)
    return x


def index_bundles(w):
    """remember which slot of which table belongs to which bundle"""
    pos = {t: 0 for t in CHANNEL_TABLES}
    for b in w.bundles:
        b.ix = {}
        b.ix["mailboxes"] = pos["mailboxes"]; pos["mailboxes"] += 1
        b.ix["nameplates"] = pos["nameplates"]; pos["nameplates"] += 1
        b.ix["mailbox_sides"], b.ix["nameplate_sides"], b.ix["messages"] = [], [], []
        for s in b.sides:
            b.ix["mailbox_sides"].append(pos["mailbox_sides"]); pos["mailbox_sides"] += 1
            b.ix["nameplate_sides"].append(pos["nameplate_sides"]); pos["nameplate_sides"] += 1
        for m in b.msgs:
            b.ix["messages"].append(pos["messages"]); pos["messages"] += 1
    w.npre = dict(pos)


def kf_d6_term(x, mid):
    """signature of known finding KF-D6: the command names a mailbox id stored under another app"""
    if x.app is None:
        return F
    return Or(*[And(b.p, b.mid.z == Z(mid), b.app.z != Z(x.app)) for b in x.w.bundles])


# ---------------------------------------------------------------------------------------------
# views of a bundle in a snapshot
# ---------------------------------------------------------------------------------------------
def rows_of(b, snap, table):
    ix = b.ix[table]
    rows = snap.tables[table]
    if isinstance(ix, list):
        return [rows[i] for i in ix]
    return rows[ix]


def bundle_unchanged(b, pre, post, ignore_updated=False):
    parts = []
    for t in CHANNEL_TABLES:
        ix = b.ix[t]
        for i in (ix if isinstance(ix, list) else [ix]):
            a, c = pre.tables[t][i], post.tables[t][i]
            if t == "mailboxes" and ignore_updated:
                eqs = [a.v[k] == c.v[k] for k in a.v if k != "updated"] + [a.n[k] == c.n[k] for k in a.n]
                parts.append(And(a.p == c.p, Implies(a.p, And(*eqs))))
            else:
                parts.append(slot_unchanged(a, c))
    return And(*parts)


def bundle_absent(b, post):
    parts = []
    for t in CHANNEL_TABLES:
        ix = b.ix[t]
        for i in (ix if isinstance(ix, list) else [ix]):
            parts.append(z3.Not(post.tables[t][i].p))
    return And(*parts)


def mailbox_gone(b, post):
    return z3.Not(post.tables["mailboxes"][b.ix["mailboxes"]].p)


def nameplate_gone(b, post):
    return z3.Not(post.tables["nameplates"][b.ix["nameplates"]].p)


def no_new_rows(pre, post, tables=CHANNEL_TABLES):
    return all(len(post.tables[t]) == len(pre.tables[t]) for t in tables)


def store_unchanged(pre, post):
    """every pre slot unchanged and no new row"""
    if not no_new_rows(pre, post):
        return F
    parts = []
    for t in CHANNEL_TABLES:
        for a, c in zip(pre.tables[t], post.tables[t]):
            parts.append(slot_unchanged(a, c))
    return And(*parts)


# ---------------------------------------------------------------------------------------------
# generic frame conditions (what any operation may do to rows it is not aimed at)
# ---------------------------------------------------------------------------------------------
def frame_messages(w, pre, post):
    """C01(c): a stored message changes only by being deleted, and only together with its
    mailbox row and all messages of that mailbox"""
    parts = []
    for b in w.bundles:
        ms_pre, ms_post = rows_of(b, pre, "messages"), rows_of(b, post, "messages")
        all_gone = And(mailbox_gone(b, post), *[z3.Not(r.p) for r in ms_post])
        for a, c in zip(ms_pre, ms_post):
            parts.append(Implies(a.p, Or(slot_unchanged(a, c), And(z3.Not(c.p), all_gone))))
            parts.append(Implies(z3.Not(a.p), z3.Not(c.p)))
        # the other direction: no message of a deleted mailbox survives
        parts.append(Implies(And(b.p, mailbox_gone(b, post)), And(*[z3.Not(r.p) for r in ms_post])))
    return And(*parts)


def frame_nameplate_rows(w, pre, post):
    """C03: a nameplate row's (app, name, mailbox_id) never changes; it can only be deleted"""
    parts = []
    for b in w.bundles:
        a, c = rows_of(b, pre, "nameplates"), rows_of(b, post, "nameplates")
        parts.append(Implies(a.p, Or(z3.Not(c.p), slot_unchanged(a, c))))
        parts.append(Implies(z3.Not(a.p), z3.Not(c.p)))
    return And(*parts)


def frame_side_rows(w, pre, post):
    """C05: side rows are removed only together with their mailbox / nameplate; identity columns
    (owner, side, added) never change"""
    parts = []
    for b in w.bundles:
        for a, c in zip(rows_of(b, pre, "mailbox_sides"), rows_of(b, post, "mailbox_sides")):
            same = And(c.p, *[a.v[k] == c.v[k] for k in ("mailbox_id", "side", "added")])
            parts.append(Implies(a.p, Or(same, And(z3.Not(c.p), mailbox_gone(b, post)))))
            parts.append(Implies(z3.Not(a.p), z3.Not(c.p)))
        for a, c in zip(rows_of(b, pre, "nameplate_sides"), rows_of(b, post, "nameplate_sides")):
            same = And(c.p, *[a.v[k] == c.v[k] for k in ("nameplates_id", "side", "added")])
            parts.append(Implies(a.p, Or(same, And(z3.Not(c.p), nameplate_gone(b, post)))))
            parts.append(Implies(z3.Not(a.p), z3.Not(c.p)))
    return And(*parts)


def frame_other_apps(w, pre, post, app):
    """C06 local respect: a command of app A leaves every row owned by another app unchanged"""
    if app is None:
        return store_unchanged(pre, post)
    parts = []
    for b in w.bundles:
        parts.append(Implies(b.app.z != Z(app), bundle_unchanged(b, pre, post)))
    return And(*parts)


def frame_other_bundles(w, pre, post, target):
    """an operation aimed at one mailbox/nameplate leaves every other bundle untouched.
    target: function bundle -> term 'this bundle is the one the command is aimed at'"""
    parts = []
    for b in w.bundles:
        parts.append(Implies(z3.Not(target(b)), bundle_unchanged(b, pre, post)))
    return And(*parts)


def claims_frame(w, pre, post, released=None):
    """C07: a claim flag changes only by the holder's own release; a nameplate (with its claim
    rows) disappears only by its last release or together with its own mailbox.
    released: None or function (bundle, side-slot) -> term 'this op releases exactly this claim'"""
    parts = []
    for b in w.bundles:
        nsp, nsq = rows_of(b, pre, "nameplate_sides"), rows_of(b, post, "nameplate_sides")
        npp, npq = rows_of(b, pre, "nameplates"), rows_of(b, post, "nameplates")
        # which claims remain after this op's release
        rel = [released(b, i) if released else F for i in range(len(nsp))]
        remaining = Or(*[And(r.p, r.v["claimed"] != 0, z3.Not(rel[i])) for i, r in enumerate(nsp)])
        this_np_released = Or(*rel) if released else F
        np_may_go = Or(And(this_np_released, z3.Not(remaining)), mailbox_gone(b, post))
        parts.append(Implies(And(npp.p, z3.Not(npq.p)), np_may_go))
        parts.append(Implies(And(npp.p, z3.Not(np_may_go)), npq.p))
        for i, (a, c) in enumerate(zip(nsp, nsq)):
            flipped = And(c.p, c.v["claimed"] == 0,
                          *[a.v[k] == c.v[k] for k in a.v if k != "claimed"])
            parts.append(Implies(a.p, Or(slot_unchanged(a, c),
                                         And(rel[i], flipped),
                                         And(z3.Not(c.p), nameplate_gone(b, post)))))
            # a claim that is not being released and whose nameplate survives keeps its flag
            parts.append(Implies(And(a.p, z3.Not(rel[i]), npq.p), slot_unchanged(a, c)))
    return And(*parts)


def inv_post(w, post):
    return inv_db_clauses(post)


# ---------------------------------------------------------------------------------------------
# INV_MEM on the live objects (path-level; look-ups with symbolic keys are decisions)
# ---------------------------------------------------------------------------------------------
def inv_mem(w, post):
    res = dict(M1=True, M2=True, M3=True, M4=True, M5=True)
    srv = w.server
    live = list(w.conns)
    for k, ns in srv._apps.items():
        eq = (k == ns._app_id)
        if not (eq is True or bool(eq)):
            res["M1"] = False
    for c in live:
        if c._app is not None:
            if srv._apps.get(c._app._app_id) is not c._app:
                res["M2"] = False
    for k, ns in srv._apps.items():
        for mk, mb in ns._mailboxes.items():
            eq = (mk == mb._mailbox_id)
            if not (eq is True or bool(eq)) or mb._app is not ns:
                res["M3"] = False
            for h in mb._listeners.keys():
                if h not in live or h._mailbox is not mb or not h._listening:
                    res["M5"] = False
    m4 = []
    for c in live:
        if c._mailbox is not None:
            mb = c._mailbox
            if not c._listening or c not in mb._listeners:
                res["M4"] = False
                continue
            if c._app is None or c._app._mailboxes.get(mb._mailbox_id) is not mb:
                res["M4"] = False
                continue
            mid, app, side = Z(mb._mailbox_id), Z(mb._app_id), Z(c._side)
            has_mb = Or(*[And(r.p, r.v["id"] == mid, r.v["app_id"] == app) for r in post.tables["mailboxes"]])
            has_side = Or(*[And(r.p, r.v["mailbox_id"] == mid, r.v["side"] == side)
                            for r in post.tables["mailbox_sides"]])
            m4.append(And(has_mb, has_side))
    if res["M4"] and m4:
        res["M4"] = And(*m4)
    return res


# ---------------------------------------------------------------------------------------------
def step_frames(c):
    return [r for r in c.frames if r["phase"] == "step"]


def ftype(rec):
    t = rec["frame"].get("type")
    if not isinstance(t, str) or isinstance(t, SStr):
        raise Unsupported("frame type is not a constant")
    return t


def fval(rec, key):
    return rec["frame"].get(key)


def eqv(a, b):
    """term: two values (proxy / python / None) are equal"""
    if a is None or b is None:
        return T if (a is None and b is None) else F
    za, zb = Z(a), Z(b)
    if za.sort() != zb.sort():
        if {za.sort(), zb.sort()} == {z3.IntSort(), z3.RealSort()}:
            za = z3.ToReal(za) if za.sort() == z3.IntSort() else za
            zb = z3.ToReal(zb) if zb.sort() == z3.IntSort() else zb
        else:
            return F
    return za == zb
