#!/usr/bin/env python3
"""regenerate MANIFEST.json from props/registry.py (run with .venv/bin/python)"""
import json, os, sys
ROOT = os.path.dirname(os.path.dirname(os.path.abspath(__file__)))
sys.path.insert(0, ROOT)
import warnings; warnings.filterwarnings("ignore")
from props import registry

ALL = [json.loads(l)["id"] for l in open(os.path.join(ROOT, "properties.jsonl"))]
NA = {}   # property id -> reason (only for properties without a registered check)
TECH = {
 "default": "symbolic execution of the real handlers (SX: CPython on z3 proxies, path-exhaustive) + z3 validity per path; counterexamples replayed on real sqlite3",
}
NOTE = ("Bounded: %s. Trusted: z3 4.x/5.1 soundness; RelStore model of sqlite3 (validated on every run by replaying "
        "witnesses and all counterexamples on real sqlite3); stubs listed in evidence.assumptions. A verdict covers "
        "all values of all symbolic inputs and pre-state slots within the bound, on every feasible path of the "
        "real code; histories are covered by induction over INV (DESIGN.md §5), the composition argument is prose.")
checks = []
for pid in ALL:
    if pid not in registry.PROPS:
        NA.setdefault(pid, "check under construction in this round (engine built, obligation not yet registered)")
        continue
    sp = registry.PROPS[pid]
    b = sp["bounds"]("quick")
    checks.append(dict(
        property_id=pid, quick_cmd="./check %s --tier quick" % pid, thorough_cmd="./check %s --tier thorough" % pid,
        evidence_file="evidence/%s.json" % pid, replay_cmd_template="./check replay {path}", engine=sp.get("engine", "sx"),
        level_claimed=dict(category=sp.get("level", "model_checking"), text=sp["explanation"], design_ref="DESIGN.md §8 " + pid),
        level_note=sp.get("level_note") or NOTE % json.dumps(b)[:900], technique=sp.get("technique", TECH["default"])))
m = dict(version=1, setup_cmd="./setup.sh",
         hooks=dict(guard="WORMHOLE_MAILBOX_VERIF",
                    enable="no source hooks: every stub is injected from outside (module attributes), DESIGN.md §3.3",
                    baseline_off_cmd="cd /repo && /venv/bin/python -m pytest -ra -q -p no:cacheprovider --timeout=900 --continue-on-collection-errors",
                    source_commits=[], add_only=True),
         engines=[dict(name="sx", path="sx/", serves_properties=[c["property_id"] for c in checks if c["engine"] == "sx"],
                       kind_free_text="purpose-built symbolic executor: real /repo functions run by CPython on z3 proxy values, "
                                      "merged relational store instead of sqlite3, exhaustive decision-tree exploration, z3 per path"),
                  dict(name="replay", path="sx/real.py", serves_properties=[c["property_id"] for c in checks],
                       kind_free_text="concretised solver models re-run on real sqlite3 with real JSON framing")],
         checks=checks,
         notes="Genuine defects found and repaired in /repo as 'fix:' commits are listed in known_findings.json (status fixed); "
               "KF-D6 is a recorded known finding. Exit codes: 0 held, 1 replay-confirmed violation, 2 inconclusive/harness error.",
         not_applicable=[dict(property_id=p, reason=r) for p, r in NA.items()])
json.dump(m, open(os.path.join(ROOT, "MANIFEST.json"), "w"), indent=1)
print("checks:", [c["property_id"] for c in checks], "n/a:", list(NA))
