"""C10 (3): clients resume after a crash.  For every committed snapshot inside claim / release / open /
close (every state a kill -9 can leave, plus the pre-state = killed before the first commit) the
same command re-sent on a fresh connection of the same side at the same instant gets the same answer
and reaches the same stored state as the uncrashed run.  Parts (1) and (2) of C10 are the
C10.crash_inv assertion of every step obligation and sweep.step on crash-shaped pre-states."""
import z3
from sx.engine import E, SBool, SStr, SNum, Z, Inconclusive, Unsupported
from sx.run import obligation, PathResult
from sx.world import SymWorld, CHANNEL_TABLES
from .common import *
from .steps import bounds, usage_cfg, step_frames, ftype
from .product import make_cmd, apply_cmd, kf_d6_for, frames_equal, stores_equal


@obligation("crash.resume")
def crash_resume(e, tier="quick", ops=None, usage=False):
    bd = dict(bounds(tier))
    ops = ops or ["claim", "release", "open", "close"]
    op = ops[e.choose(len(ops), "op")]
    cmd = make_cmd(e, op)
    crowd = 1 if op in ("open", "claim") else 0
    shapes = {"claim": ["fresh", "sub0"], "release": ["fresh", "claimed0"], "open": ["fresh"],
              "close": ["fresh", "sub0"]}[op]
    xa = build(e, crowd=crowd, acting=shapes, others=["none", "sub0s1"], **usage_cfg(e, usage), **bd)
    kf = kf_d6_for(cmd, xa)
    exa = apply_cmd(xa, cmd)
    posta = xa.w.snapshot()
    fa = step_frames(xa.c)
    fa_types = [ftype(r) for r in fa]
    proto = (fa_types == ["ack", "error"] and fa[1]["frame"].get("error") not in ("crowded", "reclaimed"))
    if proto or exa is not None:
        e.assume(False)          # protocol errors are not "resumed"; escapes are C17's business
    states = [("pre", xa.pre)] + list(xa.w.db.commit_log)
    i = e.choose(len(states), "crash_after_commit")
    S = states[i][1]
    when = xa.w.clock.values[0]
    wc = SymWorld(e, env=xa.w.env, label="resumed", **usage_cfg(e, usage))
    wc.load_snapshot(S)
    wc.bundles = xa.w.bundles
    wc.clock.frozen = when
    c2 = wc.new_conn("c2")
    bex = wc.deliver(c2, wc.msg("bind", appid=xa.app, side=xa.side))
    f2_ = dict(cmd.f)
    if op == "release":
        pres, v = cmd.f["nameplate"]
        held = xa.w.bundles[0].name if xa.a_shape == "claimed0" else None
        if held is not None:
            f2_["nameplate"] = (T, SStr(z3.If(pres, v.z, held.z)))
    if op == "close":
        pres, v = cmd.f["mailbox"]
        held = xa.w.bundles[0].mid if xa.a_shape == "sub0" else None
        if held is not None:
            f2_["mailbox"] = (T, SStr(z3.If(pres, v.z, held.z)))
    exc = wc.deliver(c2, wc.msg(op, **f2_))
    f2 = step_frames(c2)[2:]
    postc = wc.snapshot()
    A = {}
    A["C10.resume_no_exception"] = (bex is None and exc is None)
    A["C10.resume_same_answer"] = frames_equal(fa, f2)
    A["C10.resume_same_store"] = stores_equal(posta, postc)
    return PathResult(A, world=[xa.w, wc], kf=[("KF-D6", kf)],
                      info=dict(op=op, crash_state=states[i][0], index=i, shape="%s/%s" % (xa.a_shape, xa.o_shape)))
