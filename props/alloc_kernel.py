"""C04 kernel: AppNamespace._find_available_nameplate_id translated from its AST (read from /repo at
run time) by if-conversion into one SMT formula per post-condition.

Path enumeration cannot work here (a symbolic membership test per candidate id, 999 + 1000 of them),
so this one function is *translated* instead of executed: loops over concrete ranges are unrolled,
`if` becomes guarded updates, `return` / `raise` become guarded exits, `self.m()` is inlined.
Candidate ids stay integers: "%d" % e is the abstract value Dec(e) whose equality is integer
equality (the rendering is injective and canonical), `Dec(e) in <names in use>` is `inuse(e)` for an
uninterpreted inuse: Int -> Bool.  `self._get_nameplate_ids()` (the unfiltered accessor) is the
abstract in-use set; that it really returns the stored names of the app is decided by step.allocate
and step.list, which execute it.  Unsupported syntax => inconclusive, never a pass."""
import ast, inspect, random, time, textwrap
import z3
import wormhole_mailbox_server.server as S

INUSE = z3.Function("inuse", z3.IntSort(), z3.BoolSort())


class Unsupported(Exception):
    pass


class Dec:
    """decimal rendering of an integer term"""

    def __init__(self, e):
        self.e = e if isinstance(e, z3.ExprRef) else z3.IntVal(e)


class ASet:
    """abstract set/list of Dec values: kind in {'claimed', 'built', 'ite'}"""

    def __init__(self, kind, items=None, c=None, a=None, b=None):
        self.kind, self.items, self.c, self.a, self.b = kind, items or [], c, a, b

    def contains(self, d):
        if self.kind == "claimed":
            return INUSE(d.e)
        if self.kind == "built":
            return z3.Or(*[z3.And(g, x.e == d.e) for g, x in self.items]) if self.items else z3.BoolVal(False)
        return z3.If(self.c, self.a.contains(d), self.b.contains(d))

    def nonempty(self):
        if self.kind == "claimed":
            raise Unsupported("truthiness of the stored name set")
        if self.kind == "built":
            return z3.Or(*[g for g, _ in self.items]) if self.items else z3.BoolVal(False)
        return z3.If(self.c, self.a.nonempty(), self.b.nonempty())


class Translator:
    def __init__(self, cls, allow):
        self.cls = cls
        self.allow = allow
        self.constraints = []
        self.fresh = 0
        self.exits = []           # (guard, kind, value)
        self.draws = []           # symbolic random outcomes (for validation)
        self.depth = 0

    def func_ast(self, name):
        fn = getattr(self.cls, name)
        src = textwrap.dedent(inspect.getsource(fn))
        return ast.parse(src).body[0]

    # ---- expressions ----
    def ev(self, node, env, g):
        if isinstance(node, ast.Constant):
            return node.value
        if isinstance(node, ast.Name):
            if node.id in env:
                return env[node.id]
            if node.id in ("True", "False", "None"):
                return {"True": True, "False": False, "None": None}[node.id]
            raise Unsupported("free name %s" % node.id)
        if isinstance(node, ast.BinOp):
            if isinstance(node.op, ast.Mod) and isinstance(node.left, ast.Constant) and node.left.value == "%d":
                v = self.ev(node.right, env, g)
                if isinstance(v, (int, z3.ArithRef)):
                    return Dec(v)
                raise Unsupported("%d of non-integer")
            l, r = self.ev(node.left, env, g), self.ev(node.right, env, g)
            if isinstance(l, int) and isinstance(r, int):
                return {ast.Add: l + r, ast.Sub: l - r, ast.Mult: l * r, ast.Pow: l ** r}[type(node.op)] \
                    if type(node.op) in (ast.Add, ast.Sub, ast.Mult, ast.Pow) else self._uns(node)
            raise Unsupported("arithmetic on symbolic values")
        if isinstance(node, ast.UnaryOp) and isinstance(node.op, ast.Not):
            return z3.Not(self.truth(self.ev(node.operand, env, g)))
        if isinstance(node, ast.Compare) and len(node.ops) == 1 and isinstance(node.ops[0], (ast.In, ast.NotIn)):
            x, s = self.ev(node.left, env, g), self.ev(node.comparators[0], env, g)
            if not isinstance(x, Dec) or not isinstance(s, ASet):
                raise Unsupported("membership of %r in %r" % (type(x), type(s)))
            t = s.contains(x)
            return z3.Not(t) if isinstance(node.ops[0], ast.NotIn) else t
        if isinstance(node, ast.Attribute) and isinstance(node.value, ast.Name) and node.value.id == "self":
            if node.attr == "_allow_list":
                return self.allow
            raise Unsupported("attribute self.%s" % node.attr)
        if isinstance(node, ast.List) and not node.elts:
            return ASet("built", [])
        if isinstance(node, ast.Call):
            return self.call(node, env, g)
        raise Unsupported("expression %s" % ast.dump(node)[:80])

    def _uns(self, node):
        raise Unsupported(ast.dump(node)[:80])

    def truth(self, v):
        if isinstance(v, bool):
            return z3.BoolVal(v)
        if isinstance(v, z3.BoolRef):
            return v
        if isinstance(v, ASet):
            return v.nonempty()
        raise Unsupported("truth value of %r" % type(v))

    def call(self, node, env, g):
        f = node.func
        if isinstance(f, ast.Name):
            args = [self.ev(a, env, g) for a in node.args]
            if f.id == "range" and all(isinstance(a, int) for a in args):
                return range(*args)
            if f.id == "set" and not args:
                return ASet("built", [])
            if f.id in ("list", "set", "sorted") and len(args) == 1 and isinstance(args[0], ASet):
                return args[0]
            raise Unsupported("call %s" % f.id)
        if isinstance(f, ast.Attribute) and isinstance(f.value, ast.Name):
            if f.value.id == "self":
                if f.attr == "_get_nameplate_ids" and not node.args:
                    return ASet("claimed")
                return self.inline(f.attr, [self.ev(a, env, g) for a in node.args], g)
            if f.value.id == "random":
                args = [self.ev(a, env, g) for a in node.args]
                if f.attr == "choice" and len(args) == 1 and isinstance(args[0], ASet) and args[0].kind == "built":
                    r = z3.Int("choice%d" % self.fresh)
                    self.fresh += 1
                    items = args[0].items
                    self.constraints.append(z3.Implies(g, z3.Or(*[z3.And(gi, x.e == r) for gi, x in items])
                                                       if items else z3.BoolVal(False)))
                    self.draws.append(("choice", r, items))
                    return Dec(r)
                if f.attr == "randrange" and len(args) == 2 and all(isinstance(a, int) for a in args):
                    r = z3.Int("draw%d" % self.fresh)
                    self.fresh += 1
                    self.constraints.append(z3.And(r >= args[0], r < args[1]))
                    self.draws.append(("randrange", r, args))
                    return r
                raise Unsupported("random.%s" % f.attr)
        raise Unsupported("call %s" % ast.dump(f)[:60])

    def inline(self, name, args, g):
        self.depth += 1
        if self.depth > 4:
            raise Unsupported("inlining depth")
        fn = self.func_ast(name)
        params = [a.arg for a in fn.args.args][1:]
        if len(params) != len(args):
            raise Unsupported("arity of %s" % name)
        env = dict(zip(params, args))
        sub = Translator(self.cls, self.allow)
        sub.fresh, sub.depth, sub.constraints, sub.draws = self.fresh, self.depth, self.constraints, self.draws
        sub.block(fn.body, env, g, z3.BoolVal(False))
        self.fresh = sub.fresh
        self.depth -= 1
        rets = [(gg, v) for gg, k, v in sub.exits if k == "return"]
        for gg, k, v in sub.exits:
            if k == "raise":
                self.exits.append((gg, k, v))
        if not rets:
            raise Unsupported("%s never returns" % name)
        val = rets[-1][1]
        for gg, v in rets[-2::-1]:
            val = self.ite(gg, v, val)
        return val

    def ite(self, c, a, b):
        if isinstance(a, ASet) and isinstance(b, ASet):
            return ASet("ite", c=c, a=a, b=b)
        if isinstance(a, Dec) and isinstance(b, Dec):
            return Dec(z3.If(c, a.e, b.e))
        if isinstance(a, (bool, z3.BoolRef)) and isinstance(b, (bool, z3.BoolRef)):
            return z3.If(c, self.truth(a), self.truth(b))
        if a is b:
            return a
        raise Unsupported("merge of %r and %r" % (type(a), type(b)))

    # ---- statements ----
    def block(self, stmts, env, g, done):
        """returns the updated 'already exited' guard"""
        for st in stmts:
            live = z3.And(g, z3.Not(done))
            if isinstance(st, ast.Expr) and isinstance(st.value, ast.Constant):
                continue
            if isinstance(st, ast.Assign) and len(st.targets) == 1 and isinstance(st.targets[0], ast.Name):
                v = self.ev(st.value, env, live)
                name = st.targets[0].id
                # what a variable holds after the function has exited is irrelevant, so only the
                # branch guard (not the "already exited" guard) needs a merge
                if name in env and isinstance(env[name], (ASet, Dec)) and not z3.is_true(z3.simplify(g)) \
                        and type(env[name]) is type(v):
                    env[name] = self.ite(g, v, env[name])
                else:
                    env[name] = v
            elif isinstance(st, ast.For) and isinstance(st.target, ast.Name) and not st.orelse:
                it = self.ev(st.iter, env, live)
                if not isinstance(it, range):
                    raise Unsupported("loop over non-range")
                for i in it:
                    env[st.target.id] = i
                    done = self.block(st.body, env, g, done)
            elif isinstance(st, ast.If):
                c = self.truth(self.ev(st.test, env, live))
                d1 = self.block(st.body, env, z3.And(g, c), done)
                d2 = self.block(st.orelse, env, z3.And(g, z3.Not(c)), done) if st.orelse else done
                done = z3.Or(d1, d2)
            elif isinstance(st, ast.Expr) and isinstance(st.value, ast.Call) and \
                    isinstance(st.value.func, ast.Attribute) and st.value.func.attr == "add" and \
                    isinstance(st.value.func.value, ast.Name):
                s = env[st.value.func.value.id]
                x = self.ev(st.value.args[0], env, live)
                if not (isinstance(s, ASet) and s.kind == "built" and isinstance(x, Dec)):
                    raise Unsupported("add on %r" % type(s))
                s.items.append((live, x))
            elif isinstance(st, ast.Return):
                v = self.ev(st.value, env, live) if st.value is not None else None
                self.exits.append((live, "return", v))
                done = z3.Or(done, live)
            elif isinstance(st, ast.Raise):
                name = st.exc.func.id if isinstance(st.exc, ast.Call) and isinstance(st.exc.func, ast.Name) else "?"
                self.exits.append((live, "raise", name))
                done = z3.Or(done, live)
            elif isinstance(st, ast.Delete) or isinstance(st, ast.Pass):
                continue
            else:
                raise Unsupported("statement %s" % type(st).__name__)
        return done


def encode(allow):
    tr = Translator(S.AppNamespace, allow)
    fn = tr.func_ast("_find_available_nameplate_id")
    tr.block(fn.body, {}, z3.BoolVal(True), z3.BoolVal(False))
    return tr


def ndigits(r):
    return z3.If(r < 10, 1, z3.If(r < 100, 2, z3.If(r < 1000, 3, z3.If(r < 10000, 4, z3.If(r < 100000, 5, 6)))))


def run(tier="quick", seed=0, **_):
    t0 = time.time()
    report = dict(obligation="kernel.allocator (AST if-conversion)", queries=[], failed=0, inconclusive=0, errors=0)
    out = dict(report=report, stats=dict(paths=0, decisions=0, solver_queries=0, solver_s=0.0), violations=[],
               inconclusive=[], samples=[], validated=0,
               functions=["server.py:_find_available_nameplate_id", "server.py:get_nameplate_ids"])
    allow = z3.Bool("allow_list")
    try:
        tr = encode(allow)
    except Unsupported as ex:
        out["inconclusive"].append("allocator kernel: unsupported syntax: %s" % ex)
        report["inconclusive"] = 1
        return out
    result = z3.Int("result")
    raised = z3.Bool("raised")
    cons = list(tr.constraints)
    rets = [(g, v) for g, k, v in tr.exits if k == "return"]
    raises = [g for g, k, v in tr.exits if k == "raise"]
    for g, v in rets:
        if not isinstance(v, Dec):
            out["inconclusive"].append("allocator kernel: returns a non-decimal value")
            return out
        cons.append(z3.Implies(g, result == v.e))
    cons.append(raised == (z3.Or(*raises) if raises else z3.BoolVal(False)))
    cons.append(z3.Or(*([g for g, _ in rets] + raises)))        # the function always exits
    free = lambda lo, hi: z3.Or(*[z3.Not(INUSE(z3.IntVal(i))) for i in range(lo, hi)])
    nr = z3.Not(raised)
    props = {
        "positive decimal, at most 6 digits": z3.Implies(nr, z3.And(result >= 1, result < 1000000)),
        "free: no side holds the answer, whatever the listing configuration": z3.Implies(nr, z3.Not(INUSE(result))),
        "shortest available length among 1-3 digits; 4-6 digits only when all 999 are taken": z3.Implies(nr, z3.And(
            z3.Implies(free(1, 10), ndigits(result) == 1),
            z3.Implies(z3.And(z3.Not(free(1, 10)), free(10, 100)), ndigits(result) == 2),
            z3.Implies(z3.And(z3.Not(free(1, 100)), free(100, 1000)), ndigits(result) == 3),
            z3.Implies(ndigits(result) > 3, z3.Not(free(1, 1000))))),
        "ValueError only after all 999 short ids and 1000 random draws are in use": z3.Implies(
            raised, z3.And(z3.Not(free(1, 1000)), *[INUSE(r) for k, r, _ in tr.draws if k == "randrange"])),
    }
    for name, p in props.items():
        s = z3.Solver()
        s.set("timeout", 300000)
        s.add(*cons)
        s.add(z3.Not(p))
        t = time.time()
        r = s.check()
        dt = time.time() - t
        out["stats"]["solver_queries"] += 1
        out["stats"]["solver_s"] += dt
        q = dict(post=name, verdict=str(r), solver_s=round(dt, 2))
        if str(r) == "sat":
            m = s.model()
            used = sorted(i for i in range(1, 1000) if z3.is_true(m.eval(INUSE(z3.IntVal(i)), model_completion=True)))
            cex = dict(allow_list=z3.is_true(m.eval(allow, model_completion=True)),
                       result=m.eval(result, model_completion=True).as_long(),
                       raised=z3.is_true(m.eval(raised, model_completion=True)), in_use_short=used[:20],
                       n_in_use_short=len(used))
            q["counterexample"] = cex
            v = replay_cex(name, cex, m, tr)
            if v is not None:
                out["violations"].append(v)
                report["failed"] += 1
            else:
                out["inconclusive"].append("allocator kernel: counterexample for %r did not reproduce" % name)
        elif str(r) != "unsat":
            out["inconclusive"].append("allocator kernel: solver said %s for %r" % (r, name))
            report["inconclusive"] += 1
        report["queries"].append(q)
    out["stats"]["paths"] = 1
    out["stats"]["decisions"] = len(tr.exits) + len(tr.draws)
    # ---- translator validation: real function vs. encoding on concrete in-use sets ----
    nval = 200 if tier == "thorough" else 40
    ok, bad = validate(tr, allow, result, raised, cons, nval, seed)
    out["validated"] = ok
    if bad:
        out["inconclusive"].append("allocator kernel: translator validation mismatch: %s" % bad[:2])
    out["samples"].append(dict(obligation="kernel.allocator", posts=list(props), exits=len(tr.exits),
                               symbolic_draws=len(tr.draws), validation_runs=ok))
    report["wall_s"] = round(time.time() - t0, 2)
    report["paths"] = 1
    report["solver_queries"] = out["stats"]["solver_queries"]
    return out


class FakeDB:
    def __init__(self, names):
        self.names = names

    def execute(self, sql, params=()):
        names = self.names

        class C:
            def fetchall(self_):
                return [{"name": n} for n in names]
        return C()


def real_run(names, allow, choice_pick, draws):
    """the real function on a concrete in-use set with scripted randomness"""
    app = S.AppNamespace(FakeDB(names), None, None, False, "app", allow)
    saved = S.random

    class R:
        def __init__(self):
            self.i = 0

        def choice(self, seq):
            return choice_pick(sorted(seq, key=lambda s: (len(s), s)))

        def randrange(self, a, b):
            v = draws[self.i % len(draws)]
            self.i += 1
            return v
    S.random = R()
    try:
        return ("ok", app._find_available_nameplate_id())
    except ValueError:
        return ("raise", None)
    finally:
        S.random = saved


def validate(tr, allow, result, raised, cons, n, seed):
    rnd = random.Random(seed)
    ok, bad = 0, []
    for k in range(n):
        mode = k % 4
        if mode == 0:
            used = set(range(1, rnd.randrange(1, 1000)))                # fill-in-order (the test suite's pattern)
        elif mode == 1:
            used = set(rnd.sample(range(1, 1000), rnd.randrange(0, 999)))  # holes
        elif mode == 2:
            used = set(range(1, 1000)) - set(rnd.sample(range(1, 1000), rnd.randrange(0, 3)))
        else:
            used = set(range(1, 1000)) | set(rnd.sample(range(1000, 1000000), 50))
        names = ["%d" % i for i in used] + ["07", "abc", "1000000"]
        al = bool(rnd.randrange(2))
        draws = [rnd.randrange(1000, 1000000) for _ in range(1000)]
        if mode == 3 and k % 8 == 3:
            draws = [next(iter(u for u in used if u >= 1000))] * 1000      # every draw in use -> ValueError
        pick_i = rnd.random()
        kind, val = real_run(names, al, lambda seq: seq[int(pick_i * len(seq))], draws)
        s = z3.Solver()
        s.add(*cons)
        s.add(allow == al)
        for i in range(1, 1000):
            s.add(INUSE(z3.IntVal(i)) == (i in used))
        di = 0
        for kd, r, _ in tr.draws:
            if kd == "randrange":
                d = draws[di % len(draws)]
                s.add(r == d)
                s.add(INUSE(z3.IntVal(d)) == (d in used))
                di += 1
        if kind == "ok":
            s.add(z3.Not(raised), result == int(val))
        else:
            s.add(raised)
        if str(s.check()) == "sat":
            ok += 1
        else:
            bad.append(dict(used=len(used), allow=al, real=(kind, val)))
    return ok, bad


def replay_cex(name, cex, m, tr):
    """run the real function on the solver's in-use set and random outcomes; report only what reproduces"""
    import os, json, hashlib
    used = [i for i in range(1, 1000000) if i < 1000 and z3.is_true(m.eval(INUSE(z3.IntVal(i)), model_completion=True))]
    draws = []
    for kd, r, _ in tr.draws:
        if kd == "randrange":
            draws.append(m.eval(r, model_completion=True).as_long())
    extra = [d for d in draws if z3.is_true(m.eval(INUSE(z3.IntVal(d)), model_completion=True))]
    if z3.is_true(m.eval(INUSE(z3.IntVal(cex["result"])), model_completion=True)):
        extra.append(cex["result"])
    names = ["%d" % i for i in sorted(set(used) | set(extra))]
    want = "%d" % cex["result"]
    kind, val = real_run(names, cex["allow_list"],
                         lambda seq: want if want in seq else seq[0], draws or [1000])
    reproduced = False
    if cex["raised"]:
        reproduced = kind == "raise"
    elif kind == "ok":
        reproduced = (val in names) if "free" in name else (val == want)
    if not reproduced:
        return None
    root = os.path.dirname(os.path.dirname(os.path.abspath(__file__)))
    rep = dict(property="C04", kind="allocator-kernel", post=name, allow_list=cex["allow_list"], names_in_use=names[:2000],
               random_draws=draws[:5], real_result=[kind, val])
    h = hashlib.sha256(json.dumps(rep, sort_keys=True).encode()).hexdigest()[:12]
    path = os.path.join(root, "replays", "C04-%s.json" % h)
    os.makedirs(os.path.dirname(path), exist_ok=True)
    json.dump(rep, open(path, "w"), indent=1)
    return dict(status="confirmed", replay=path, assertion="C04." + name, obligation="kernel.allocator",
                summary="allow_list=%s, %d names in use -> real function answered %r" % (cex["allow_list"], len(names), val))
